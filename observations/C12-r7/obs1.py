"""
Observation 1 (unmodified tree): a config that arrives while a function is already running is not acted on in that
function call.

TriggerHandler.trace_call returns None for the 'call' event of every function that is entered while the handler has no
tracepoints ("return if we do not have any tracepoints"). Returning None from the global trace function switches line
events off for that frame for good. So a long running function (the main loop of a service, a worker thread's run
loop ...) that was entered before the first config arrived - or while the config was empty - never triggers the
tracepoints of a later config, although the handler holds that config.

Exit 1 + explanation when the defect is there, exit 0 when the running frame is acted on.
"""
import faulthandler
import inspect
import os
import sys
import threading
import time

faulthandler.dump_traceback_later(60, exit=True)

# noinspection PyUnresolvedReferences
from deepproto.proto.tracepoint.v1.tracepoint_pb2 import TracePointConfig  # noqa: E402

import deep.logging  # noqa: E402
from deep.api.resource import Resource  # noqa: E402
from deep.config import ConfigService  # noqa: E402
from deep.grpc import convert_response  # noqa: E402
from deep.processor.trigger_handler import TriggerHandler  # noqa: E402
from deep.push.push_service import PushService  # noqa: E402
from deep.task import TaskHandler  # noqa: E402


class CapturePush(PushService):
    def __init__(self):
        super().__init__(None, None)
        self.pushed = []

    def push_snapshot(self, snapshot):
        self.pushed.append(snapshot)


def run_loop(stop, state):
    while not stop.is_set():
        state['count'] += 1  # TRACEPOINT
        time.sleep(0.01)


def wait_for(predicate, timeout):
    end = time.time() + timeout
    while time.time() < end:
        if predicate():
            return True
        time.sleep(0.01)
    return predicate()


def main():
    lines, first = inspect.getsourcelines(run_loop)
    tp_line = first + [i for i, text in enumerate(lines) if 'TRACEPOINT' in text][0]
    this_file = os.path.basename(__file__)

    config = ConfigService({})
    config.resource = Resource.create()
    deep.logging.init(config)
    tasks = TaskHandler()
    config.set_task_handler(tasks)
    push = CapturePush()
    handler = TriggerHandler(config, push)
    handler.start()
    try:
        # the application's loop starts before the agent has a config
        stop_1, state_1 = threading.Event(), {'count': 0}
        early = threading.Thread(target=run_loop, args=(stop_1, state_1), name="started-before-config")
        early.start()
        wait_for(lambda: state_1['count'] > 3, 5)

        # now the service sends a tracepoint on a line of that loop (fire_count -1: every hit, at most one per 100ms)
        service_tp = TracePointConfig(ID="tp-loop", path=this_file, line_number=tp_line,
                                      args={'fire_count': '-1', 'fire_period': '100'}, watches=[], metrics=[])
        config.tracepoints.update_new_config(1, "hash-1", convert_response([service_tp]))
        wait_for(lambda: len(handler._tp_config) == 1, 5)
        before = state_1['count']
        wait_for(lambda: len(push.pushed) > 0, 1.5)
        executed = state_1['count'] - before
        from_running_frame = len(push.pushed)
        stop_1.set()
        early.join()

        # control: the same function entered after the config arrived does trigger
        stop_2, state_2 = threading.Event(), {'count': 0}
        late = threading.Thread(target=run_loop, args=(stop_2, state_2), name="started-after-config")
        late.start()
        wait_for(lambda: len(push.pushed) > from_running_frame, 5)
        stop_2.set()
        late.join()
        from_new_frame = len(push.pushed) - from_running_frame
    finally:
        handler.shutdown()
    tasks.flush()

    if from_running_frame == 0:
        print("DEFECT: the handler holds the latest config (tracepoint %s#%d), the line was executed %d times by the "
              "call of run_loop() that was already running when the config arrived, and no snapshot was produced "
              "(a call entered afterwards produced %d). trace_call returned None for the frame's 'call' event "
              "because the config was empty at that time, so the frame is never traced."
              % (this_file, tp_line, executed, from_new_frame))
        return 1
    print("OK: the running frame produced %d snapshot(s)" % from_running_frame)
    return 0


if __name__ == '__main__':
    sys.exit(main())
