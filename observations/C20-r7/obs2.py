"""
Observation 2 (unmodified tree): a plugin whose module cannot be imported is only skipped when the import fails with
an Exception. A module that ends its import with a BaseException - e.g. the common `sys.exit("package X is required")`
guard for a missing dependency - takes the agent (and the application: SystemExit leaves deep.start()) down, although
a plugin that fails in its constructor with the very same error is skipped (load_plugins catches BaseException there).
The same holds for a plugin whose order() fails with a BaseException (only Exception is handled in __order_of).

Exit 1 and a description when the defect is present, exit 0 when it is not.
"""
import os
import shutil
import sys
import tempfile

from deep.api.plugin import load_plugins, Plugin
from deep.config import ConfigService


class ExitsInConstructor(Plugin):
    def __init__(self, config=None):
        super().__init__(config=config)
        sys.exit("demo: package foo is required")


class OrderInterrupted(Plugin):
    def order(self):
        raise KeyboardInterrupt()


def attempt(label, custom):
    try:
        names = [p.name for p in load_plugins(ConfigService({}), custom)]
    except BaseException as e:
        print("%s: load_plugins raised %s(%s) - no plugin loaded, agent cannot start" % (label, type(e).__name__, e))
        return False
    print("%s: loaded %s" % (label, names))
    return "PythonPlugin" in names


def main():
    import logging
    logging.getLogger("deep").setLevel(logging.CRITICAL)
    tmp = tempfile.mkdtemp(prefix="obs2_")
    try:
        with open(os.path.join(tmp, "obs2_needs_foo.py"), "w") as f:
            f.write("import sys\n"
                    "try:\n"
                    "    import obs2_package_that_is_not_installed\n"
                    "except ImportError:\n"
                    "    sys.exit('demo: package foo is required')\n"
                    "class FooPlugin:\n"
                    "    pass\n")
        sys.path.insert(0, tmp)
        ok = True
        # reference: the same failure in the constructor is isolated
        ok &= attempt("SystemExit in constructor", ["__main__.ExitsInConstructor"])
        ok &= attempt("SystemExit at import     ", ["obs2_needs_foo.FooPlugin"])
        ok &= attempt("BaseException in order() ", ["__main__.OrderInterrupted"])
    finally:
        if tmp in sys.path:
            sys.path.remove(tmp)
        shutil.rmtree(tmp, ignore_errors=True)
    if not ok:
        print("DEFECT: a plugin that cannot be imported / ordered is not skipped, it stops the agent from starting")
        return 1
    print("OK")
    return 0


if __name__ == '__main__':
    sys.exit(main())
