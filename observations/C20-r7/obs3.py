"""
Observation 3 (unmodified tree): Deep.shutdown() builds the list of shutdown steps with
`[(plugin.name, plugin.shutdown) for plugin in self.config.plugins]` BEFORE the loop that isolates each step. A loaded
plugin for which that lookup fails (load_plugins does not require the Plugin base class: anything that can be
constructed and answers is_active()/order() is loaded; or a Plugin whose `name` property fails) makes shutdown() raise
before ANY step ran: the trace function stays installed, the poll timer keeps running, the other plugins are not shut
down and deep.started stays True.

Exit 1 and a description when the defect is present, exit 0 when it is not.
"""
import sys
import threading

from deep.api import Deep
from deep.api.plugin import Plugin
from deep.config import ConfigService

SHUTDOWN = []


class Good(Plugin):
    def shutdown(self):
        SHUTDOWN.append(self.name)


class DuckTyped:
    """Written against the documented callbacks only, without the base class: has no shutdown()."""

    name = "DuckTyped"

    def __init__(self, config=None):
        self.config = config

    def is_active(self):
        return True

    def order(self):
        return 10


def main():
    import logging
    logging.getLogger("deep").setLevel(logging.CRITICAL)
    config = ConfigService({
        "PLUGINS": ["__main__.Good", "__main__.DuckTyped"], "SERVICE_URL": "127.0.0.1:1", "SERVICE_SECURE": "False",
        "POLL_TIMER": 3600, "APP_ROOT": "/"})
    agent = Deep(config)
    before = sys.gettrace()
    agent.start()
    names = [p.name for p in config.plugins]
    problems = []
    if "DuckTyped" not in names or "Good" not in names:
        print("precondition not met, plugins loaded: %s" % names)
        return 0
    try:
        agent.shutdown()
    except BaseException as e:
        problems.append("Deep.shutdown() raised %s: %s" % (type(e).__name__, e))
    if sys.gettrace() is not before:
        problems.append("the trace function of the agent is still installed: %r" % (sys.gettrace(),))
    if "Good" not in SHUTDOWN:
        problems.append("the healthy plugin 'Good' was not shut down")
    if agent.poll.timer is not None:
        problems.append("the poll timer is still running")
    if agent.started:
        problems.append("deep.started is still True")
    # clean up whatever is left
    sys.settrace(before)
    threading.settrace(None)
    if agent.poll.timer is not None:
        agent.poll.shutdown()
    if problems:
        print("DEFECT: one plugin without a usable shutdown stops the whole shutdown:")
        for problem in problems:
            print("  - " + problem)
        return 1
    print("OK")
    return 0


if __name__ == '__main__':
    sys.exit(main())
