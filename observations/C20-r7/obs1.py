"""
Observation 1 (unmodified tree): the agent does not start when the custom plugins are configured as anything but a list.

C20 quantifies over every set of configured plugins; deep.api.plugin.load_plugins does `DEEP_PLUGINS + custom`, so a
tuple (PLUGINS=('pkg.mod.Plugin',)) - or a single dotted name given as text - raises TypeError out of Deep.start():
no plugin is loaded at all, no trace function is installed, nothing is polled.

Exit 1 and a description when the defect is present, exit 0 when it is not.
"""
import sys

from deep.api import Deep
from deep.api.plugin import Plugin
from deep.config import ConfigService


class Harmless(Plugin):
    pass


def try_start(plugins):
    config = ConfigService({
        "PLUGINS": plugins, "NO_TRACE": True, "SERVICE_URL": "127.0.0.1:1", "SERVICE_SECURE": "False",
        "POLL_TIMER": 3600, "APP_ROOT": "/"})
    agent = Deep(config)
    try:
        agent.start()
    except BaseException as e:
        return "Deep.start() raised %s: %s" % (type(e).__name__, e)
    try:
        names = [p.name for p in config.plugins]
        if "Harmless" not in names or "PythonPlugin" not in names:
            return "started, but plugins are %s" % names
        return None
    finally:
        agent.shutdown()


def main():
    import logging
    logging.getLogger("deep").setLevel(logging.CRITICAL)
    problems = []
    for plugins in (["__main__.Harmless"], ("__main__.Harmless",)):
        problem = try_start(plugins)
        print("PLUGINS=%r -> %s" % (plugins, problem or "agent started, plugins loaded"))
        if problem:
            problems.append(problem)
    if problems:
        print("DEFECT: custom plugins given as a tuple stop the whole agent from starting")
        return 1
    print("OK")
    return 0


if __name__ == '__main__':
    sys.exit(main())
