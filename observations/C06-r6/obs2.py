"""
Observation 2 (unmodified tree): variable_to_string() trusts that str(value) is a plain str. For an instance of a str
subclass whose __str__ returns the instance itself (legal: str() accepts any str subclass instance as result) the
"string" that is truncated with string[:max_length] is the application object, so its __getitem__ decides what is stored
as Variable.value. If that is not a str (here: a list), the snapshot is collected and handed to the push service, but
convert_snapshot() fails with a TypeError, returns None, and PushService._push_task silently drops the snapshot: one odd
value costs the whole snapshot at delivery time.

Exit 1 and a description when the defect is present, exit 0 when the snapshot can be converted.
"""
import faulthandler
import logging
import os
import sys

faulthandler.dump_traceback_later(60, exit=True)

from deep.api.resource import Resource  # noqa: E402
from deep.api.tracepoint.trigger import Location, LocationAction, LineLocation, Trigger  # noqa: E402
from deep.config import ConfigService  # noqa: E402
from deep.processor.trigger_handler import TriggerHandler  # noqa: E402
from deep.push import convert_snapshot  # noqa: E402
from deep.push.push_service import PushService  # noqa: E402
from deep import logging as deep_logging  # noqa: E402


class CollectingPush(PushService):
    def __init__(self):
        super().__init__(None, None)
        self.pushed = []

    def push_snapshot(self, snapshot):
        self.pushed.append(snapshot)


class Config(ConfigService):
    @property
    def resource(self):
        return Resource.get_empty()


class Words(str):
    """Text that is indexed by word, not by character."""

    def __str__(self):
        return self

    def __getitem__(self, item):
        return self.split()[item]


def target():
    sentence = Words("one two three")
    other = 5
    return sentence, other  # TRACEPOINT


def line_of(tag):
    with open(__file__) as source:
        for number, text in enumerate(source, start=1):
            if text.rstrip().endswith("# " + tag):
                return number


def main():
    deep_logging.init(Config({}))
    logging.getLogger("deep").setLevel(logging.CRITICAL)
    logging.getLogger().setLevel(logging.CRITICAL)
    push = CollectingPush()
    handler = TriggerHandler(Config({}), push)
    handler.new_config([Trigger(LineLocation(os.path.basename(__file__), line_of("TRACEPOINT"), Location.Position.START),
                                [LocationAction("tp", None, {}, LocationAction.ActionType.Snapshot)])])
    sys.settrace(handler.trace_call)
    try:
        target()
    finally:
        sys.settrace(None)
    if len(push.pushed) != 1:
        print("DEFECT: no snapshot was produced (pushed=%d)" % len(push.pushed))
        return 1
    snapshot = push.pushed[0]
    values = {v.name: snapshot.var_lookup[v.vid].value for v in snapshot.frames[0].variables}
    if convert_snapshot(snapshot) is None:
        print("DEFECT: the snapshot was collected, but cannot be converted for sending and is dropped by the push "
              "service: Variable.value of 'sentence' is %r (a %s, not text)"
              % (values.get("sentence"), type(values.get("sentence")).__name__))
        return 1
    print("ok: snapshot converted, values %s" % values)
    return 0


if __name__ == '__main__':
    sys.exit(main())
