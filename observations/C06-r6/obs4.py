"""
Observation 4 (unmodified tree; the trigger is the tracepoint's log message together with the value, not the object graph
alone): the log message of a snapshot tracepoint is interpolated by string.Formatter with the STRING form of every
expression. A format spec that is perfectly valid for the value in the frame - '{price:.2f}' for a float, '{count:05d}'
for an int - therefore raises ValueError ("Unknown format code 'f' for object of type 'str'"), and so does a message with
an unbalanced brace. process_log() is called from SnapshotActionContext._process_action without a guard, so the error
costs the whole, already collected, snapshot instead of only the log line.

Exit 1 and a description when the defect is present, exit 0 when the snapshot is produced.
"""
import faulthandler
import logging
import os
import sys

faulthandler.dump_traceback_later(60, exit=True)

from deep.api.resource import Resource  # noqa: E402
from deep.api.tracepoint.constants import LOG_MSG  # noqa: E402
from deep.api.tracepoint.trigger import Location, LocationAction, LineLocation, Trigger  # noqa: E402
from deep.config import ConfigService  # noqa: E402
from deep.processor.trigger_handler import TriggerHandler  # noqa: E402
from deep.push.push_service import PushService  # noqa: E402
from deep import logging as deep_logging  # noqa: E402


class CollectingPush(PushService):
    def __init__(self):
        super().__init__(None, None)
        self.pushed = []

    def push_snapshot(self, snapshot):
        self.pushed.append(snapshot)


class Config(ConfigService):
    @property
    def resource(self):
        return Resource.get_empty()


def checkout():
    price = 12.5
    count = 3
    return price * count  # TRACEPOINT


def line_of(tag):
    with open(__file__) as source:
        for number, text in enumerate(source, start=1):
            if text.rstrip().endswith("# " + tag):
                return number


def run(log_msg):
    push = CollectingPush()
    handler = TriggerHandler(Config({}), push)
    handler.new_config([Trigger(LineLocation(os.path.basename(__file__), line_of("TRACEPOINT"), Location.Position.START),
                                [LocationAction("tp", None, {LOG_MSG: log_msg}, LocationAction.ActionType.Snapshot)])])
    sys.settrace(handler.trace_call)
    try:
        checkout()
    finally:
        sys.settrace(None)
    return push.pushed


def main():
    deep_logging.init(Config({}))
    logging.getLogger("deep").setLevel(logging.CRITICAL)
    lost = []
    for log_msg in ["total {price} x {count}", "total {price:.2f} x {count:05d}", "total {price} }"]:
        pushed = run(log_msg)
        print("log message %r: %d snapshot(s) %s" % (log_msg, len(pushed), [s.log_msg for s in pushed]))
        if len(pushed) != 1:
            lost.append(log_msg)
    if lost:
        print("DEFECT: the snapshot was lost for the log messages %s" % lost)
        return 1
    print("ok")
    return 0


if __name__ == '__main__':
    sys.exit(main())
