"""
Observation 1 (unmodified tree): a dictionary key that is an instance of a str subclass is used as the variable name as
it is (key_name() returns it unchanged because isinstance(key, str)). The name is then handed to var_modifiers(), which
calls name.startswith() - application code when the subclass overrides it - OUTSIDE every guard of the variable
processor. If that raises, the exception leaves the collection and the whole snapshot is lost (not only the offending
key).

Exit 1 and a description when the defect is present, exit 0 when the snapshot is produced.
"""
import faulthandler
import logging
import os
import sys

faulthandler.dump_traceback_later(60, exit=True)

from deep.api.resource import Resource  # noqa: E402
from deep.api.tracepoint.trigger import Location, LocationAction, LineLocation, Trigger  # noqa: E402
from deep.config import ConfigService  # noqa: E402
from deep.processor.trigger_handler import TriggerHandler  # noqa: E402
from deep.push.push_service import PushService  # noqa: E402
from deep import logging as deep_logging  # noqa: E402


class CollectingPush(PushService):
    def __init__(self):
        super().__init__(None, None)
        self.pushed = []

    def push_snapshot(self, snapshot):
        self.pushed.append(snapshot)


class Config(ConfigService):
    @property
    def resource(self):
        return Resource.get_empty()


class Token(str):
    """A str subclass of the application with a method that does not accept what the agent passes / fails."""

    def startswith(self, *args):
        raise RuntimeError("Token.startswith is not supported")


def target():
    table = {Token("k"): 1}
    other = 5
    return table, other  # TRACEPOINT


def line_of(tag):
    with open(__file__) as source:
        for number, text in enumerate(source, start=1):
            if text.rstrip().endswith("# " + tag):
                return number


def main():
    deep_logging.init(Config({}))
    logging.getLogger("deep").setLevel(logging.CRITICAL)
    push = CollectingPush()
    handler = TriggerHandler(Config({}), push)
    handler.new_config([Trigger(LineLocation(os.path.basename(__file__), line_of("TRACEPOINT"), Location.Position.START),
                                [LocationAction("tp", None, {}, LocationAction.ActionType.Snapshot)])])
    sys.settrace(handler.trace_call)
    try:
        target()
    finally:
        sys.settrace(None)
    if len(push.pushed) != 1:
        print("DEFECT: no snapshot was produced: a dict key of a str subclass whose startswith() raises made "
              "var_modifiers() fail outside every guard (pushed=%d)" % len(push.pushed))
        return 1
    names = sorted(v.name for v in push.pushed[0].frames[0].variables)
    print("ok: snapshot produced with variables %s" % names)
    return 0


if __name__ == '__main__':
    sys.exit(main())
