"""
Observation 3 (unmodified tree): the size of a snapshot is only bounded for variable VALUES (MAX_STRING_LENGTH). The
variable NAMES taken from dictionary keys (key_name()), the interpolated log message (the un-truncated str() of every
{expression}), and watch error texts are not bounded. One large key / one large value in a log expression makes the
protobuf message larger than the 4 MiB a gRPC server accepts by default; the server answers RESOURCE_EXHAUSTED, the push
task fails in the background and the due snapshot is never delivered (nothing is retried or trimmed).

The script starts a SnapshotService on an ephemeral loopback port (default gRPC limits), wires the real GRPCService /
TaskHandler / PushService / TriggerHandler together and fires one tracepoint in a frame whose dict has a 6 MB key
(think: a cache keyed by document text), and one tracepoint with log message '{body}' for a 6 MB string.

Exit 1 and a description when a snapshot is lost, exit 0 when all are delivered.
"""
import faulthandler
import inspect
import logging
import os
import sys
from concurrent import futures

faulthandler.dump_traceback_later(120, exit=True)

import grpc  # noqa: E402
# noinspection PyUnresolvedReferences
from deepproto.proto.tracepoint.v1.tracepoint_pb2 import SnapshotResponse  # noqa: E402
from deepproto.proto.tracepoint.v1.tracepoint_pb2_grpc import SnapshotServiceServicer, \
    add_SnapshotServiceServicer_to_server  # noqa: E402

from deep.api.resource import Resource  # noqa: E402
from deep.api.tracepoint.constants import LOG_MSG  # noqa: E402
from deep.api.tracepoint.trigger import Location, LocationAction, LineLocation, Trigger  # noqa: E402
from deep.config import ConfigService  # noqa: E402
from deep.grpc import GRPCService  # noqa: E402
from deep.processor.trigger_handler import TriggerHandler  # noqa: E402
from deep.push.push_service import PushService  # noqa: E402
from deep.task import TaskHandler  # noqa: E402
from deep import logging as deep_logging  # noqa: E402


class Servicer(SnapshotServiceServicer):
    def __init__(self):
        self.received = []

    def send(self, request, context):
        self.received.append(request)
        return SnapshotResponse()


class Config(ConfigService):
    @property
    def resource(self):
        return Resource.get_empty()


def small_key():
    body = "x" * 100
    cache = {body: 1}
    return cache  # TRACEPOINT


def large_key():
    body = "x" * 6_000_000
    cache = {body: 1}
    return cache  # TRACEPOINT


def large_log_value():
    body = "x" * 6_000_000
    return len(body)  # TRACEPOINT


def line_of(func):
    lines, start = inspect.getsourcelines(func)
    for index, text in enumerate(lines):
        if text.rstrip().endswith("# TRACEPOINT"):
            return start + index


def main():
    servicer = Servicer()
    server = grpc.server(futures.ThreadPoolExecutor(max_workers=2))
    add_SnapshotServiceServicer_to_server(servicer, server)
    port = server.add_insecure_port('127.0.0.1:0')
    server.start()
    config = Config({'SERVICE_URL': '127.0.0.1:%d' % port, 'SERVICE_SECURE': 'False'})
    deep_logging.init(config)
    logging.getLogger("deep").setLevel(logging.CRITICAL)
    logging.getLogger().setLevel(logging.CRITICAL)
    grpc_service = GRPCService(config)
    grpc_service.start()

    lost = []
    try:
        for func, action_config in ((small_key, {}), (large_key, {}), (large_log_value, {LOG_MSG: "body is {body}"})):
            tasks = TaskHandler()
            handler = TriggerHandler(config, PushService(grpc_service, tasks))
            handler.new_config([Trigger(
                LineLocation(os.path.basename(__file__), line_of(func), Location.Position.START),
                [LocationAction("tp-" + func.__name__, None, dict(action_config), LocationAction.ActionType.Snapshot)])])
            before = len(servicer.received)
            sys.settrace(handler.trace_call)
            try:
                func()
            finally:
                sys.settrace(None)
            tasks.flush()
            delivered = len(servicer.received) - before
            print("%s: delivered %d snapshot(s)" % (func.__name__, delivered))
            if delivered != 1:
                lost.append(func.__name__)
    finally:
        server.stop(1)

    if lost:
        print("DEFECT: the due snapshot was not delivered for: %s (message larger than the server's 4 MiB limit, "
              "RESOURCE_EXHAUSTED; names taken from dict keys and the log message are not bounded)" % ", ".join(lost))
        return 1
    print("ok: every snapshot was delivered")
    return 0


if __name__ == '__main__':
    sys.exit(main())
