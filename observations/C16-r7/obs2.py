"""
obs2 (unmodified tree) - a field that names a private attribute the way the paused code does ('self.__token' inside a
method of the class) is not evaluated "in the paused frame": the expression is compiled outside the class, so the name
is not mangled to _Account__token and the field is replaced by an AttributeError text, although the very same
expression is valid on the line where the tracepoint sits. The variables of the snapshot show the attribute under
the name '__token' (the agent un-mangles names for display), so this is the spelling a user copies into a log message.
"""
import logging
import os
import sys

from deep.api.plugin import TracepointLogger
from deep.api.resource import Resource
from deep.api.tracepoint.constants import LOG_MSG, SNAPSHOT, NO_COLLECT, FIRE_COUNT, FIRE_PERIOD
from deep.api.tracepoint.trigger import build_trigger
from deep.config import ConfigService
from deep.processor.trigger_handler import TriggerHandler
from deep.push.push_service import PushService

logging.getLogger("deep").addHandler(logging.NullHandler())
logging.getLogger("deep").propagate = False


class RecordingLogger(TracepointLogger):
    def __init__(self):
        super().__init__()
        self.logged = []

    def log_tracepoint(self, log_msg, tp_id, ctx_id):
        self.logged.append(log_msg)


class RecordingPush(PushService):
    def __init__(self):
        super().__init__(None, None)
        self.pushed = []

    def push_snapshot(self, snapshot):
        self.pushed.append(snapshot)


class Account:
    def __init__(self):
        self.__token = "t-123"

    def describe(self):
        text = "token " + self.__token
        return text  # TRACEPOINT


def line_of(marker):
    with open(__file__) as source:
        for number, text in enumerate(source, 1):
            if text.rstrip().endswith(marker):
                return number
    raise RuntimeError("marker not found")


def main():
    tp_logger = RecordingLogger()
    config = ConfigService({})
    config.plugins = [tp_logger]
    config.resource = Resource.get_empty()
    push = RecordingPush()
    handler = TriggerHandler(config, push)
    args = {LOG_MSG: "token={self.__token} text={text}", FIRE_COUNT: '-1', FIRE_PERIOD: '0'}
    handler.new_config([build_trigger("tp-o2", os.path.basename(__file__), line_of("# TRACEPOINT"), args, [], [])])
    account = Account()
    sys.settrace(handler.trace_call)
    try:
        account.describe()
    finally:
        sys.settrace(None)
    expected = "[deep] token=t-123 text=token t-123"
    names = []
    if push.pushed:
        snapshot = push.pushed[0]
        for var_id in snapshot.frames[0].variables:
            if var_id.name == 'self':
                names = [child.name for child in snapshot.var_lookup[var_id.vid].children]
    if tp_logger.logged != [expected]:
        print("DEFECT (unmodified tree): expected %r, the tracepoint logger got %r" % (expected, tp_logger.logged))
        print("(the snapshot shows the attributes of self as %r)" % names)
        return 1
    print("no defect observed")
    return 0


if __name__ == '__main__':
    sys.exit(main())
