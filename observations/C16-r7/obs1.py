"""
obs1 (unmodified tree) - a log template whose {expression} field contains '!=' (or a ':' outside brackets, e.g. in a
string, a dict literal, a lambda or a slice written without brackets) produces NO message at all.

The template is parsed with the str.format grammar: '!' starts a conversion and ':' a format spec, so
'{a != b}' raises ValueError("expected ':' after conversion specifier") inside string.Formatter.vformat, before any
field is evaluated. The exception leaves LogActionContext.process_log and is swallowed (and logged) by the trigger
handler: nothing reaches the tracepoint logger, and for a collecting tracepoint the snapshot is lost as well.
Expected by C16: the field is an ordinary expression of the paused frame ('a != b' -> 'True'); and even a field
that cannot be evaluated only costs that field, not the message.
"""
import logging
import os
import sys

from deep.api.plugin import TracepointLogger
from deep.api.resource import Resource
from deep.api.tracepoint.constants import LOG_MSG, SNAPSHOT, NO_COLLECT, FIRE_COUNT, FIRE_PERIOD
from deep.api.tracepoint.trigger import build_trigger
from deep.config import ConfigService
from deep.processor.trigger_handler import TriggerHandler
from deep.push.push_service import PushService

logging.getLogger("deep").addHandler(logging.NullHandler())
logging.getLogger("deep").propagate = False


class RecordingLogger(TracepointLogger):
    def __init__(self):
        super().__init__()
        self.logged = []

    def log_tracepoint(self, log_msg, tp_id, ctx_id):
        self.logged.append(log_msg)


class RecordingPush(PushService):
    def __init__(self):
        super().__init__(None, None)
        self.pushed = []

    def push_snapshot(self, snapshot):
        self.pushed.append(snapshot)


def target(a, b):
    labels = {'x:y': 5}
    return a + b  # TRACEPOINT


def line_of(marker):
    with open(__file__) as source:
        for number, text in enumerate(source, 1):
            if text.rstrip().endswith(marker):
                return number
    raise RuntimeError("marker not found")


def run(template, collect):
    tp_logger = RecordingLogger()
    config = ConfigService({})
    config.plugins = [tp_logger]
    config.resource = Resource.get_empty()
    push = RecordingPush()
    handler = TriggerHandler(config, push)
    args = {LOG_MSG: template, FIRE_COUNT: '-1', FIRE_PERIOD: '0'}
    if not collect:
        args[SNAPSHOT] = NO_COLLECT
    handler.new_config([build_trigger("tp-o1", os.path.basename(__file__), line_of("# TRACEPOINT"), args, [], [])])
    sys.settrace(handler.trace_call)
    try:
        target(1, 2)
    finally:
        sys.settrace(None)
    return tp_logger.logged, push.pushed


def main():
    problems = []
    cases = [
        ("differ={a != b} sum={a + b}", "[deep] differ=True sum=3"),
        ("kind={'small' if a < b else 'big:one'} sum={a + b}", "[deep] kind=small sum=3"),
        ("five={labels.get('x:y')} sum={a + b}", "[deep] five=5 sum=3"),
    ]
    for collect in (False, True):
        for template, expected in cases:
            logged, pushed = run(template, collect)
            kind = "collecting" if collect else "log only"
            if logged != [expected]:
                problems.append("%r (%s): expected %r, the tracepoint logger got %r" % (template, kind, expected, logged))
            if collect and len(pushed) != 1:
                problems.append("%r (%s): expected one snapshot, got %d" % (template, kind, len(pushed)))
    if problems:
        print("DEFECT (unmodified tree):")
        for problem in problems:
            print(" - " + problem)
        return 1
    print("no defect observed")
    return 0


if __name__ == '__main__':
    sys.exit(main())
