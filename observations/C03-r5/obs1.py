"""
obs1 (unmodified tree): a function that was entered while no tracepoint was configured never gets line tracepoints.

TriggerHandler.__trace_call returns None when the config is empty. For a 'call' event that tells python not to trace
that frame at all, for as long as it runs. A tracepoint that is configured later on a line of that (still running)
function is executed, but never acts. Typical victims: the main loop of the application, the run loop of worker
threads - everything that is entered before the first poll response has been applied.
"""
import faulthandler
import logging
import os
import sys
import threading

faulthandler.dump_traceback_later(120, exit=True)
logging.disable(logging.CRITICAL)

from deep.api.plugin import TracepointLogger  # noqa: E402
from deep.config import ConfigService  # noqa: E402
from deep.processor.trigger_handler import TriggerHandler  # noqa: E402
from deep.push.push_service import PushService  # noqa: E402
from deep.task import TaskHandler  # noqa: E402

entered = threading.Event()
configured = threading.Event()


def worker_loop():
    entered.set()
    configured.wait(20)
    reached = "this line is executed after the tracepoint was configured"
    return reached


FILE = os.path.basename(__file__)
LINE = worker_loop.__code__.co_firstlineno + 3
LOG_ONLY = {'snapshot': 'no_collect', 'fire_count': '-1', 'fire_period': '0'}


class CapturingLogger(TracepointLogger):
    def __init__(self):
        super().__init__()
        self.hits = []

    def log_tracepoint(self, log_msg, tp_id, ctx_id):
        self.hits.append((threading.current_thread().name, log_msg))


def drain(tasks):
    for future in list(tasks._pending.values()):
        try:
            future.result(20)
        except BaseException:
            pass


def main():
    logger = CapturingLogger()
    config = ConfigService({})
    config.plugins = [logger]
    tasks = TaskHandler()
    config.set_task_handler(tasks)
    handler = TriggerHandler(config, PushService(None, tasks))

    previous = threading.gettrace()
    threading.settrace(handler.trace_call)
    try:
        # started after installation, but before any tracepoint exists
        early = threading.Thread(target=worker_loop, name="early")
        early.start()
        entered.wait(20)
        config.tracepoints.add_custom(FILE, LINE, dict(LOG_ONLY, log_msg='hit'), [], [])
        drain(tasks)
        configured.set()
        early.join(20)
        # control: the same function entered after the tracepoint exists
        late = threading.Thread(target=worker_loop, name="late")
        late.start()
        late.join(20)
    finally:
        threading.settrace(previous)
    tasks.flush()

    threads = [name for name, _ in logger.hits]
    print("line %s:%s was executed once in thread 'early' and once in thread 'late', both times after the tracepoint "
          "was configured; tracepoint acted in: %s" % (FILE, LINE, threads))
    if threads.count("early") != 1:
        print("WRONG: the tracepoint did not act in thread 'early' (the function was entered while the config was "
              "empty, trace_call returned None for its call event, so the frame is never traced)")
        return 1
    print("OK")
    return 0


if __name__ == '__main__':
    sys.exit(main())
