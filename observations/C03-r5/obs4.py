"""
obs4 (unmodified tree): one tracepoint the agent cannot interpret takes all other tracepoints of the poll with it.

deep.grpc.convert_response skips a tracepoint with an unknown stage ("the rest of the response is still valid"), but
a tracepoint with a metric whose type the agent does not know (a newer server / a newer MetricType enum value) makes
MetricType.Name() raise ValueError. LongPoll.poll fails as a whole, the config (and its hash) are not updated, and on
every later poll the same happens again: the ordinary line tracepoint that came in the same response never acts.
"""
import faulthandler
import logging
import os
import sys

faulthandler.dump_traceback_later(120, exit=True)
logging.disable(logging.CRITICAL)

# noinspection PyUnresolvedReferences
from deepproto.proto.poll.v1.poll_pb2 import PollResponse, ResponseType  # noqa: E402
# noinspection PyUnresolvedReferences
from deepproto.proto.tracepoint.v1.tracepoint_pb2 import TracePointConfig, Metric  # noqa: E402

from deep.api.plugin import TracepointLogger  # noqa: E402
from deep.api.resource import Resource  # noqa: E402
from deep.config import ConfigService  # noqa: E402
from deep.poll import LongPoll  # noqa: E402
from deep.processor.trigger_handler import TriggerHandler  # noqa: E402
from deep.push.push_service import PushService  # noqa: E402
from deep.task import TaskHandler  # noqa: E402


def target(arg):
    val = arg + "x"
    return val


FILE = os.path.basename(__file__)
LINE = target.__code__.co_firstlineno + 1
LOG_ONLY = {'snapshot': 'no_collect', 'fire_count': '-1', 'fire_period': '0'}


class CapturingLogger(TracepointLogger):
    def __init__(self):
        super().__init__()
        self.hits = []

    def log_tracepoint(self, log_msg, tp_id, ctx_id):
        self.hits.append(tp_id)


class FakeChannel:
    """Answers the poll like a server would."""

    def __init__(self, response):
        self.response = response

    def unary_unary(self, *args, **kwargs):
        return lambda request, **kw: self.response


class FakeGrpc:
    def __init__(self, response):
        self.channel = FakeChannel(response)

    @staticmethod
    def metadata():
        return []


def drain(tasks):
    for future in list(tasks._pending.values()):
        try:
            future.result(20)
        except BaseException:
            pass


def run(tracepoints):
    logger = CapturingLogger()
    config = ConfigService({})
    config.plugins = [logger]
    config.resource = Resource.create()
    tasks = TaskHandler()
    config.set_task_handler(tasks)
    handler = TriggerHandler(config, PushService(None, tasks))
    response = PollResponse(ts_nanos=1, current_hash="hash-1", response=tracepoints,
                            response_type=ResponseType.UPDATE)
    poll = LongPoll(config, FakeGrpc(response))
    error = None
    try:
        poll.poll()
    except Exception as e:
        error = e
    drain(tasks)
    sys.settrace(handler.trace_call)
    try:
        target("a")
    finally:
        sys.settrace(None)
    tasks.flush()
    return logger.hits, error


def main():
    line_tp = TracePointConfig(ID="tp-line", path=FILE, line_number=LINE, args=dict(LOG_ONLY, log_msg='line'))
    other_tp = TracePointConfig(ID="tp-other", path="some_other_file.py", line_number=5, args={},
                                metrics=[Metric(name="m", type=42)])
    alone, _ = run([line_tp])
    together, error = run([line_tp, other_tp])
    print("line tracepoint on %s:%s, line executed once: alone it acted %s; in a poll response together with a "
          "tracepoint for another file that has a metric of an unknown type it acted %s (poll error: %r)"
          % (FILE, LINE, alone, together, error))
    if alone == ["tp-line"] and together != ["tp-line"]:
        print("WRONG: the line tracepoint never acts, the whole poll response is dropped")
        return 1
    print("OK")
    return 0


if __name__ == '__main__':
    sys.exit(main())
