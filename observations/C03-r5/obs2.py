"""
obs2 (unmodified tree): one tracepoint can stop all other tracepoints of the same file from acting.

A method tracepoint without method name (e.g. args {'span': 'method'}, "wrap the method this line is in") becomes a
FunctionLocation(path, None). Its at_location() calls inspect.getsourcelines(frame) for every trace event in that
file. When the source of the file cannot be read (sourceless .pyc deployment, generated/exec'd code, source removed
or not readable) that raises OSError, TriggerHandler.__actions_for_location is aborted, and so NO tracepoint acts for
that event - also the ordinary line tracepoints of other users on that file, that would work fine alone.
"""
import faulthandler
import logging
import sys

faulthandler.dump_traceback_later(120, exit=True)
logging.disable(logging.CRITICAL)

from deep.api.plugin import TracepointLogger  # noqa: E402
from deep.config import ConfigService  # noqa: E402
from deep.processor.trigger_handler import TriggerHandler  # noqa: E402
from deep.push.push_service import PushService  # noqa: E402
from deep.task import TaskHandler  # noqa: E402

SOURCE = '''def compute(arg):
    val = arg + 1
    return val
'''
FILE = "generated_mod.py"
namespace = {}
# code whose source file does not exist on disk (like a module shipped as .pyc only)
exec(compile(SOURCE, "/nonexistent/dir/" + FILE, "exec"), namespace)
compute = namespace['compute']
LOG_ONLY = {'snapshot': 'no_collect', 'fire_count': '-1', 'fire_period': '0'}


class CapturingLogger(TracepointLogger):
    def __init__(self):
        super().__init__()
        self.hits = []

    def log_tracepoint(self, log_msg, tp_id, ctx_id):
        self.hits.append(log_msg)


def drain(tasks):
    for future in list(tasks._pending.values()):
        try:
            future.result(20)
        except BaseException:
            pass


def run(with_nameless_method_tracepoint):
    logger = CapturingLogger()
    config = ConfigService({})
    config.plugins = [logger]
    tasks = TaskHandler()
    config.set_task_handler(tasks)
    handler = TriggerHandler(config, PushService(None, tasks))
    config.tracepoints.add_custom(FILE, 2, dict(LOG_ONLY, log_msg='line 2'), [], [])
    drain(tasks)
    if with_nameless_method_tracepoint:
        config.tracepoints.add_custom(FILE, 3, {'span': 'method'}, [], [])
        drain(tasks)
    sys.settrace(handler.trace_call)
    try:
        compute(1)
    finally:
        sys.settrace(None)
    tasks.flush()
    return logger.hits


def main():
    alone = run(False)
    together = run(True)
    print("line tracepoint on %s:2, function executed once: alone it acted %s; with a second tracepoint "
          "{'span': 'method'} on %s:3 it acted %s" % (FILE, alone, FILE, together))
    if alone == ['[deep] line 2'] and together != ['[deep] line 2']:
        print("WRONG: the line tracepoint does not act any more once the other tracepoint exists "
              "(inspect.getsourcelines raises OSError in FunctionLocation.at_location, the whole event is dropped)")
        return 1
    print("OK")
    return 0


if __name__ == '__main__':
    sys.exit(main())
