"""
obs3 (unmodified tree): a method tracepoint without method name acts on the wrong events, and never on the method.

A tracepoint with args {'span': 'method'} (or stage method_start without method_name) on a line inside a function is
meant to act when the function that contains that line is entered. FunctionLocation.at_location discovers the
function with `start <= line >= end`, where `line` is the line of the current event (not the configured line) and
`end` is one past the last source line of the current frame's code. That can never be true for a function frame, but
it is true for the module frame when it executes the last line of the file (inspect.getsourcelines of a module frame
returns start 0, and the discovery branch does not look at the kind of event). So the tracepoint acts on the last
line of the module, pins itself to the name '<module>', and never acts on entry of the function.
"""
import faulthandler
import logging
import os
import runpy
import sys
import tempfile

faulthandler.dump_traceback_later(120, exit=True)
logging.disable(logging.CRITICAL)

from deep.api.resource import Resource  # noqa: E402
from deep.config import ConfigService  # noqa: E402
from deep.processor.trigger_handler import TriggerHandler  # noqa: E402
from deep.push.push_service import PushService  # noqa: E402
from deep.task import TaskHandler  # noqa: E402

SOURCE = '''def compute(arg):
    val = arg + 1
    return val


result = compute(1)
result = compute(2)
'''


class CapturingPushService(PushService):
    def __init__(self, grpc, task_handler):
        super().__init__(grpc, task_handler)
        self.pushed = []

    def push_snapshot(self, snapshot):
        frame = snapshot.frames[0]
        self.pushed.append("%s:%s in %s" % (os.path.basename(frame.file_name), frame.line_number, frame.method_name))


class Config(ConfigService):
    @property
    def resource(self):
        return Resource.get_empty()


def drain(tasks):
    for future in list(tasks._pending.values()):
        try:
            future.result(20)
        except BaseException:
            pass


def main():
    directory = tempfile.mkdtemp()
    path = os.path.join(directory, "obs3_target_mod.py")
    with open(path, "w") as f:
        f.write(SOURCE)
    try:
        config = Config({})
        tasks = TaskHandler()
        config.set_task_handler(tasks)
        push = CapturingPushService(None, tasks)
        handler = TriggerHandler(config, push)
        # "the method that contains line 2", unlimited
        config.tracepoints.add_custom("obs3_target_mod.py", 2,
                                      {'stage': 'method_start', 'fire_count': '-1', 'fire_period': '0'}, [], [])
        drain(tasks)
        sys.settrace(handler.trace_call)
        try:
            runpy.run_path(path)
        finally:
            sys.settrace(None)
        tasks.flush()
    finally:
        os.remove(path)
        os.rmdir(directory)

    print("compute() (lines 1-3) was entered twice; the method tracepoint for the method around line 2 acted at: %s"
          % push.pushed)
    wrong = [hit for hit in push.pushed if not hit.endswith("in compute")]
    if wrong or len(push.pushed) != 2:
        print("WRONG: expected 2 actions, at the two entries of compute(); got actions at %s" % push.pushed)
        return 1
    print("OK")
    return 0


if __name__ == '__main__':
    sys.exit(main())
