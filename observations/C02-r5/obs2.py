"""
obs2 (unmodified tree): the tracepoint named by the snapshot is not the tracepoint that was configured, and the
collection limits given in its arguments are ignored.

A tracepoint arrives (long poll, or Deep.register_tracepoint) as id/path/line/args/watches and is turned into a
snapshot action by deep.api.tracepoint.trigger.build_trigger -> build_snapshot_action. That function builds the
action config from a fixed list of keys (watches, frame_type, stack_type, fire_count, fire_period, log_msg). All other
arguments are dropped, and LocationAction.tracepoint - which is what EventSnapshot.tracepoint / the protobuf
Snapshot.tracepoint is built from - reports that reduced-and-defaulted dict as "args":

 * arguments the user set (condition, MAX_STRING_LENGTH, MAX_COLLECTION_SIZE, ..., any custom key) are missing from
   the snapshot's tracepoint, arguments the user did not set (frame_type, stack_type, fire_count, fire_period) appear
 * SnapshotActionContext.collection_config reads MAX_STRING_LENGTH / MAX_COLLECTION_SIZE / MAX_VARIABLES /
   MAX_VAR_DEPTH / MAX_TP_PROCESS_TIME from that same action config, so the limits configured on the tracepoint never
   take effect (only a LocationAction that is constructed by hand, as the unit tests do, can carry them)
 * for a method tracepoint (args method_name) the snapshot names line 0 instead of the configured line

Exit 1 and print what is wrong when the defect is present.
"""
import faulthandler
import os
import sys
import threading

faulthandler.dump_traceback_later(60, exit=True)

from deep.api.resource import Resource  # noqa: E402
from deep.config import ConfigService  # noqa: E402
from deep.config.tracepoint_config import TracepointConfigService  # noqa: E402
from deep.processor.trigger_handler import TriggerHandler  # noqa: E402
from deep.push import convert_snapshot  # noqa: E402
from deep.push.push_service import PushService  # noqa: E402


class CapturePush(PushService):
    def __init__(self):
        super().__init__(None, None)
        self.pushed = []

    def push_snapshot(self, snapshot):
        self.pushed.append(snapshot)


class Config(ConfigService):
    @property
    def resource(self):
        return Resource.get_empty()


class InlineTasks:
    """Run the config update in the calling thread."""

    def submit_task(self, task, *args):
        from concurrent.futures import Future
        future = Future()
        future.set_result(task(*args))
        return future


def target(text, items):
    return len(text) + len(items)  # TRACEPOINT


def method_target(value):
    return value


def tracepoint_line():
    with open(__file__) as f:
        for no, text in enumerate(f, 1):
            if text.rstrip().endswith("items)  # TRACEPOINT"):
                return no
    raise RuntimeError("no marker")


def main():
    push = CapturePush()
    tracepoints = TracepointConfigService()
    config = Config({'APP_ROOT': os.path.dirname(os.path.abspath(__file__))}, tracepoints)
    config.set_task_handler(InlineTasks())
    handler = TriggerHandler(config, push)

    file = os.path.basename(__file__)
    line = tracepoint_line()
    configured = {'condition': 'len(text) > 1', 'MAX_STRING_LENGTH': '8', 'MAX_COLLECTION_SIZE': '2',
                  'owner': 'team-a'}
    tp_id = tracepoints.add_custom(file, line, dict(configured), ['len(items)'], [])
    method_args = {'method_name': 'method_target'}
    method_id = tracepoints.add_custom(file, 77, dict(method_args), [], [])

    threading.settrace(handler.trace_call)
    try:
        worker = threading.Thread(target=lambda: (target("a" * 40, list(range(6))), method_target(1)))
        worker.start()
        worker.join(30)
    finally:
        threading.settrace(None)

    by_id = {s.tracepoint.id: s for s in push.pushed}
    problems = []
    snapshot = by_id.get(tp_id)
    if snapshot is None:
        print("no snapshot for the line tracepoint")
        return 2
    sent = convert_snapshot(snapshot)
    reported = dict(sent.tracepoint.args)
    print("configured args:", configured)
    print("snapshot.tracepoint.args:", reported)
    if reported != configured:
        problems.append("the snapshot names a tracepoint with args %s, the tracepoint that fired has args %s" % (
            reported, configured))
    text = [v for v in sent.frames[0].variables if v.name == 'text'][0]
    items = [v for v in sent.frames[0].variables if v.name == 'items'][0]
    if len(sent.var_lookup[text.ID].value) != 8:
        problems.append("MAX_STRING_LENGTH=8 is configured, the text was collected with %d characters" % len(
            sent.var_lookup[text.ID].value))
    if len(sent.var_lookup[items.ID].children) != 2:
        problems.append("MAX_COLLECTION_SIZE=2 is configured, the list was collected with %d children" % len(
            sent.var_lookup[items.ID].children))

    method_snapshot = by_id.get(method_id)
    if method_snapshot is None:
        problems.append("no snapshot for the method tracepoint")
    else:
        sent = convert_snapshot(method_snapshot)
        print("method tracepoint: configured line 77, snapshot.tracepoint.line_number =", sent.tracepoint.line_number)
        if sent.tracepoint.line_number != 77:
            problems.append("the method tracepoint is configured with line 77, the snapshot names line %d" %
                            sent.tracepoint.line_number)

    if problems:
        print("DEFECT:")
        for problem in problems:
            print("  - " + problem)
        return 1
    print("ok")
    return 0


if __name__ == '__main__':
    code = main()
    sys.stdout.flush()
    os._exit(code)
