"""
obs6 (unmodified tree): containers of the standard library other than exactly dict/list/tuple/set/frozenset, and
objects using __slots__, are collected without any children (and without an element count).

find_children_for_parent() only knows `type is dict`, the four list-like type NAMES, exceptions, and value.__dict__.
collections.OrderedDict / defaultdict / Counter (dict subclasses), collections.deque, named tuples (tuple
subclasses) and instances of classes with __slots__ fall through: the snapshot has one variable with str(value)
(cut at MAX_STRING_LENGTH) and no children, so the elements / attributes - and the objects they refer to - are not in
the snapshot, while the same data in a plain dict / list / object is expanded.

Exit 1 and print what is wrong when the defect is present.
"""
import collections
import faulthandler
import os
import sys
import threading

faulthandler.dump_traceback_later(60, exit=True)

from deep.api.resource import Resource  # noqa: E402
from deep.api.tracepoint.trigger import LineLocation, Location, LocationAction, Trigger  # noqa: E402
from deep.config import ConfigService  # noqa: E402
from deep.processor.trigger_handler import TriggerHandler  # noqa: E402
from deep.push.push_service import PushService  # noqa: E402


class CapturePush(PushService):
    def __init__(self):
        super().__init__(None, None)
        self.pushed = []

    def push_snapshot(self, snapshot):
        self.pushed.append(snapshot)


class Config(ConfigService):
    @property
    def resource(self):
        return Resource.get_empty()


class User:
    def __init__(self, name):
        self.name = name


class SlotUser:
    __slots__ = ('name', 'friend')

    def __init__(self, name, friend):
        self.name = name
        self.friend = friend


Pair = collections.namedtuple('Pair', ['left', 'right'])


def target():
    plain_dict = {'u': User("a")}
    ordered = collections.OrderedDict(u=User("b"))
    default = collections.defaultdict(list, u=[User("c")])
    queue = collections.deque([User("d")])
    pair = Pair(User("e"), User("f"))
    slotted = SlotUser("g", User("h"))
    return plain_dict, ordered, default, queue, pair, slotted  # TRACEPOINT


def tracepoint_line():
    with open(__file__) as f:
        for no, text in enumerate(f, 1):
            if text.rstrip().endswith("slotted  # TRACEPOINT"):
                return no
    raise RuntimeError("no marker")


def main():
    push = CapturePush()
    handler = TriggerHandler(Config({'APP_ROOT': os.path.dirname(os.path.abspath(__file__))}), push)
    handler.new_config([Trigger(LineLocation(os.path.basename(__file__), tracepoint_line(), Location.Position.START),
                                [LocationAction("tp", None, {}, LocationAction.ActionType.Snapshot)])])
    threading.settrace(handler.trace_call)
    try:
        worker = threading.Thread(target=target)
        worker.start()
        worker.join(30)
    finally:
        threading.settrace(None)

    snapshot = push.pushed[0]
    problems = []
    expected = {'plain_dict': 1, 'ordered': 1, 'default': 1, 'queue': 1, 'pair': 2, 'slotted': 2}
    for var_id in snapshot.frames[0].variables:
        variable = snapshot.var_lookup[var_id.vid]
        print("%-10s type=%-12s value=%-45r children=%s" % (var_id.name, variable.type, variable.value[:45],
                                                           [c.name for c in variable.children]))
        if len(variable.children) != expected[var_id.name]:
            problems.append("%s (%s) holds %d element(s)/attribute(s), the snapshot has %d children" % (
                var_id.name, variable.type, expected[var_id.name], len(variable.children)))
    if problems:
        print("DEFECT:")
        for problem in problems:
            print("  - " + problem)
        return 1
    print("ok")
    return 0


if __name__ == '__main__':
    code = main()
    sys.stdout.flush()
    os._exit(code)
