"""
obs4 (unmodified tree): the processing-time budget (MAX_TP_PROCESS_TIME, 100 ms) is measured from the start of the
trace event, not per tracepoint, so a tracepoint can lose all variables of its top frame because of ANOTHER tracepoint
on the same line.

FrameCollector.__time_exceeded() compares now with TriggerContext.ts, which is taken once per trace event. All actions
of that event (several tracepoints on one line, a log/metric action before a snapshot action) share it. If the first
tracepoint has an expensive watch (here: 0.3 s), the snapshot of the second tracepoint - which has not spent any time
yet - is collected with "time exceeded": its top frame carries no variables at all, although the frame has locals and
the frame_type is single_frame.

Both tracepoints are registered the way the agent does it (TracepointConfigService.add_custom -> build_trigger).

Exit 1 and print what is wrong when the defect is present.
"""
import faulthandler
import os
import sys
import threading
import time

faulthandler.dump_traceback_later(60, exit=True)

from deep.api.resource import Resource  # noqa: E402
from deep.config import ConfigService  # noqa: E402
from deep.config.tracepoint_config import TracepointConfigService  # noqa: E402
from deep.processor.trigger_handler import TriggerHandler  # noqa: E402
from deep.push.push_service import PushService  # noqa: E402


class CapturePush(PushService):
    def __init__(self):
        super().__init__(None, None)
        self.pushed = []

    def push_snapshot(self, snapshot):
        self.pushed.append(snapshot)


class Config(ConfigService):
    @property
    def resource(self):
        return Resource.get_empty()


class InlineTasks:
    def submit_task(self, task, *args):
        from concurrent.futures import Future
        future = Future()
        future.set_result(task(*args))
        return future


def expensive():
    time.sleep(0.3)
    return "done"


def target(order_id, amount):
    return order_id, amount  # TRACEPOINT


def tracepoint_line():
    with open(__file__) as f:
        for no, text in enumerate(f, 1):
            if text.rstrip().endswith("amount  # TRACEPOINT"):
                return no
    raise RuntimeError("no marker")


def main():
    push = CapturePush()
    tracepoints = TracepointConfigService()
    config = Config({'APP_ROOT': os.path.dirname(os.path.abspath(__file__))}, tracepoints)
    config.set_task_handler(InlineTasks())
    handler = TriggerHandler(config, push)
    file = os.path.basename(__file__)
    first = tracepoints.add_custom(file, tracepoint_line(), {}, ['expensive()'], [])
    second = tracepoints.add_custom(file, tracepoint_line(), {}, [], [])

    threading.settrace(handler.trace_call)
    try:
        worker = threading.Thread(target=target, args=(17, 2.5))
        worker.start()
        worker.join(30)
    finally:
        threading.settrace(None)

    by_id = {s.tracepoint.id: s for s in push.pushed}
    if first not in by_id or second not in by_id:
        print("expected two snapshots, got", len(push.pushed))
        return 2
    names_first = [v.name for v in by_id[first].frames[0].variables]
    names_second = [v.name for v in by_id[second].frames[0].variables]
    print("tracepoint 1 (watch expensive()): top frame variables", names_first)
    print("tracepoint 2 (no watch)         : top frame variables", names_second)
    if names_second != ['order_id', 'amount']:
        print("DEFECT: the snapshot of tracepoint 2 has the top frame variables %s, the frame's locals are "
              "['order_id', 'amount']" % names_second)
        return 1
    print("ok")
    return 0


if __name__ == '__main__':
    code = main()
    sys.stdout.flush()
    os._exit(code)
