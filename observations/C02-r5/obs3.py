"""
obs3 (unmodified tree): app-frame flag and short path are decided with a plain string prefix test.

ConfigService.is_app_frame() uses filename.startswith(path) for APP_ROOT, IN_APP_INCLUDE and IN_APP_EXCLUDE, and
FrameCollector.parse_short_name() cuts len(path) characters off. A directory that is a sibling of the application root
and whose name merely starts with the same characters (APP_ROOT=/srv/app and /srv/app_vendor, /srv/app-libs,
/srv/application2, ...) is therefore treated as part of the application: its frames are flagged app_frame=True and get
a short path that is cut in the middle of a directory name ('_vendor/lib.py').

The script creates <tmp>/app/main.py and <tmp>/app_vendor/lib.py, configures APP_ROOT=<tmp>/app, and takes a snapshot
in lib.py (called from main.py).

Exit 1 and print what is wrong when the defect is present.
"""
import faulthandler
import importlib.util
import os
import shutil
import sys
import tempfile
import threading

faulthandler.dump_traceback_later(60, exit=True)

from deep.api.resource import Resource  # noqa: E402
from deep.api.tracepoint.trigger import LineLocation, Location, LocationAction, Trigger  # noqa: E402
from deep.config import ConfigService  # noqa: E402
from deep.processor.trigger_handler import TriggerHandler  # noqa: E402
from deep.push.push_service import PushService  # noqa: E402


class CapturePush(PushService):
    def __init__(self):
        super().__init__(None, None)
        self.pushed = []

    def push_snapshot(self, snapshot):
        self.pushed.append(snapshot)


class Config(ConfigService):
    @property
    def resource(self):
        return Resource.get_empty()


def load(path, name):
    spec = importlib.util.spec_from_file_location(name, path)
    module = importlib.util.module_from_spec(spec)
    spec.loader.exec_module(module)
    return module


def main():
    base = tempfile.mkdtemp(prefix="obs3_")
    try:
        app_root = os.path.join(base, "app")
        vendor = os.path.join(base, "app_vendor")
        os.mkdir(app_root)
        os.mkdir(vendor)
        lib_path = os.path.join(vendor, "obs3_lib.py")
        main_path = os.path.join(app_root, "obs3_main.py")
        with open(lib_path, "w") as f:
            f.write("def helper(x):\n    y = x + 1\n    return y\n")
        with open(main_path, "w") as f:
            f.write("def run(lib):\n    return lib.helper(1)\n")
        lib = load(lib_path, "obs3_lib")
        app = load(main_path, "obs3_main")

        push = CapturePush()
        handler = TriggerHandler(Config({'APP_ROOT': app_root}), push)
        handler.new_config([Trigger(LineLocation("obs3_lib.py", 3, Location.Position.START), [
            LocationAction("tp", None, {}, LocationAction.ActionType.Snapshot)])])
        threading.settrace(handler.trace_call)
        try:
            worker = threading.Thread(target=app.run, args=(lib,))
            worker.start()
            worker.join(30)
        finally:
            threading.settrace(None)

        snapshot = push.pushed[0]
        problems = []
        for frame in snapshot.frames[:2]:
            print("frame %s: app_frame=%s short_path=%r" % (frame.file_name, frame.app_frame, frame.short_path))
        lib_frame, main_frame = snapshot.frames[0], snapshot.frames[1]
        if not main_frame.app_frame or main_frame.short_path != "/obs3_main.py":
            problems.append("unexpected: the frame of app/obs3_main.py is %s %r" % (main_frame.app_frame,
                                                                                 main_frame.short_path))
        if lib_frame.app_frame:
            problems.append("APP_ROOT is %s, but the frame of %s is flagged as an application frame" % (
                app_root, lib_frame.file_name))
        if lib_frame.short_path != lib_frame.file_name:
            problems.append("the frame of %s gets the short path %r" % (lib_frame.file_name, lib_frame.short_path))
        if problems:
            print("DEFECT:")
            for problem in problems:
                print("  - " + problem)
            return 1
        print("ok")
        return 0
    finally:
        shutil.rmtree(base, ignore_errors=True)


if __name__ == '__main__':
    code = main()
    sys.stdout.flush()
    os._exit(code)
