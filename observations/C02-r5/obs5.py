"""
obs5 (unmodified tree): the variable processor dispatches on the NAME of the type, so user classes that share a name
with a builtin are mistreated.

variable_processor compares type(value).__name__ with NO_CHILD_TYPES / LIST_LIKE_TYPES / ITER_LIKE_TYPES:
 * an instance of a user class called `long`, `unicode`, `module`, `type`, `traceback`, `list_iterator` ... (python 2
   compatibility shims `class long(int)` / `class unicode(str)` are the common case) is treated as a scalar: its
   attributes are not collected, although it is an ordinary object with a __dict__
 * an instance of a user class called `set`, `list`, `tuple` or `frozenset` that has no __len__ makes
   variable_to_string() raise TypeError (len(value)); that is not caught anywhere below TriggerHandler, so the whole
   snapshot of the frame is lost (and the id of the value stays in the identity cache without a variable).

Exit 1 and print what is wrong when the defect is present.
"""
import faulthandler
import os
import sys
import threading

faulthandler.dump_traceback_later(60, exit=True)

from deep.api.resource import Resource  # noqa: E402
from deep.api.tracepoint.trigger import LineLocation, Location, LocationAction, Trigger  # noqa: E402
from deep.config import ConfigService  # noqa: E402
from deep.processor.trigger_handler import TriggerHandler  # noqa: E402
from deep.push.push_service import PushService  # noqa: E402


class CapturePush(PushService):
    def __init__(self):
        super().__init__(None, None)
        self.pushed = []

    def push_snapshot(self, snapshot):
        self.pushed.append(snapshot)


class Config(ConfigService):
    @property
    def resource(self):
        return Resource.get_empty()


class long:  # noqa: N801
    def __init__(self):
        self.digits = [1, 2, 3]
        self.sign = -1


class Account:
    def __init__(self):
        self.digits = [1, 2, 3]
        self.sign = -1


class set:  # noqa: N801,A001
    """A 'set' of rules, not a collection: no __len__, no __iter__."""

    def __init__(self):
        self.rules = ["a"]


def with_long():
    value = long()
    same_shape = Account()
    return value, same_shape  # TRACEPOINT-1


def with_set():
    rules = set()
    count = 3
    return rules, count  # TRACEPOINT-2


def line_of(marker):
    with open(__file__) as f:
        for no, text in enumerate(f, 1):
            if text.rstrip().endswith("  # " + marker):
                return no
    raise RuntimeError("no marker")


def main():
    push = CapturePush()
    handler = TriggerHandler(Config({'APP_ROOT': os.path.dirname(os.path.abspath(__file__))}), push)
    file = os.path.basename(__file__)
    handler.new_config([
        Trigger(LineLocation(file, line_of("TRACEPOINT-1"), Location.Position.START),
                [LocationAction("tp-long", None, {}, LocationAction.ActionType.Snapshot)]),
        Trigger(LineLocation(file, line_of("TRACEPOINT-2"), Location.Position.START),
                [LocationAction("tp-set", None, {}, LocationAction.ActionType.Snapshot)])])
    threading.settrace(handler.trace_call)
    try:
        worker = threading.Thread(target=lambda: (with_long(), with_set()))
        worker.start()
        worker.join(30)
    finally:
        threading.settrace(None)

    by_id = {s.tracepoint.id: s for s in push.pushed}
    problems = []
    snapshot = by_id.get('tp-long')
    if snapshot is None:
        problems.append("no snapshot for tp-long")
    else:
        top = {v.name: snapshot.var_lookup[v.vid] for v in snapshot.frames[0].variables}
        names_long = [c.name for c in top['value'].children]
        names_account = [c.name for c in top['same_shape'].children]
        print("children of the Account instance:", names_account)
        print("children of the long instance   :", names_long)
        if names_long != names_account:
            problems.append("the instance of the user class 'long' has attributes %s, the snapshot gives it the "
                            "children %s" % (names_account, names_long))
    if 'tp-set' not in by_id:
        problems.append("no snapshot at all was delivered for the frame that holds an instance of the user class "
                        "'set' (TypeError: object of type 'set' has no len())")
    if problems:
        print("DEFECT:")
        for problem in problems:
            print("  - " + problem)
        return 1
    print("ok")
    return 0


if __name__ == '__main__':
    code = main()
    sys.stdout.flush()
    os._exit(code)
