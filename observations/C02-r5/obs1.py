"""
obs1 (unmodified tree): attributes of an object whose name merely starts with '_<ClassName>' are renamed.

variable_processor.correct_names() is meant to undo python's name mangling of private attributes
(self.__x is stored as _Cls__x and shown as __x). It strips the prefix '_' + class name from every attribute that
starts with it, without checking that the '__' of a mangled name follows. An ordinary protected attribute such as
`_Nodes` / `_Node_count` of class `Node`, or `_HTTPConnection` of class `HTTP`, is reported under a name that does not
exist on the object ('s', '_count', 'Connection'); two attributes can even collapse to the same name.

Exit 1 and print what is wrong when the defect is present.
"""
import faulthandler
import os
import sys
import threading

faulthandler.dump_traceback_later(60, exit=True)

from deep.api.resource import Resource  # noqa: E402
from deep.api.tracepoint.trigger import LineLocation, Location, LocationAction, Trigger  # noqa: E402
from deep.config import ConfigService  # noqa: E402
from deep.processor.trigger_handler import TriggerHandler  # noqa: E402
from deep.push.push_service import PushService  # noqa: E402


class CapturePush(PushService):
    def __init__(self):
        super().__init__(None, None)
        self.pushed = []

    def push_snapshot(self, snapshot):
        self.pushed.append(snapshot)


class Config(ConfigService):
    @property
    def resource(self):
        return Resource.get_empty()


class Node:
    def __init__(self):
        self._Nodes = ["child"]  # protected attribute, not mangled
        self._Node_count = 1  # protected attribute, not mangled
        self.s = "another attribute"
        self.__secret = 42  # private: stored as _Node__secret, shown as __secret


def target():
    node = Node()
    return node  # TRACEPOINT


def tracepoint_line():
    with open(__file__) as f:
        for no, text in enumerate(f, 1):
            if text.rstrip().endswith("node  # TRACEPOINT"):
                return no
    raise RuntimeError("no marker")


def main():
    push = CapturePush()
    handler = TriggerHandler(Config({'APP_ROOT': os.path.dirname(os.path.abspath(__file__))}), push)
    location = LineLocation(os.path.basename(__file__), tracepoint_line(), Location.Position.START)
    handler.new_config([Trigger(location, [LocationAction("tp", None, {}, LocationAction.ActionType.Snapshot)])])
    threading.settrace(handler.trace_call)
    try:
        worker = threading.Thread(target=target)
        worker.start()
        worker.join(30)
    finally:
        threading.settrace(None)

    snapshot = push.pushed[0]
    node = [v for v in snapshot.frames[0].variables if v.name == 'node'][0]
    children = snapshot.var_lookup[node.vid].children
    names = [(c.name, c.original_name) for c in children]
    print("children of node (name, original_name):", names)
    expected = ['_Nodes', '_Node_count', 's', '__secret']
    got = [c.name for c in children]
    if got != expected:
        print("DEFECT: the attributes of the Node instance are %s, the snapshot names them %s" % (expected, got))
        return 1
    print("ok")
    return 0


if __name__ == '__main__':
    code = main()
    sys.stdout.flush()
    os._exit(code)
