"""
obs5 (unmodified tree): the captured result of a deferred snapshot is looked up in the snapshot's identity cache
first. When the invocation returns an object that was already collected when the snapshot was opened (an argument,
self) the 'result' is that earlier rendering: the state at the call, not the value the invocation returned.
"""
import shutil
import sys

from obs_common import EVENTS, RecordingPush, Config, load_target, run_traced, captured
from deep.api.tracepoint.constants import STAGE, METHOD_CAPTURE, FIRE_COUNT, FIRE_PERIOD
from deep.api.tracepoint.trigger import Location, LocationAction, Trigger, FunctionLocation
from deep.processor.trigger_handler import TriggerHandler

SOURCE = '''
def collect(found, names):
    for name in names:
        if name.startswith("a"):
            found.append(name)
    return found
'''

target, directory = load_target("c15_obs5_target", SOURCE)
push = RecordingPush()
handler = TriggerHandler(Config({}), push)
handler.new_config([Trigger(FunctionLocation("c15_obs5_target.py", "collect", Location.Position.START), [
    LocationAction("tp-capture", None, {STAGE: METHOD_CAPTURE, FIRE_COUNT: -1, FIRE_PERIOD: 0},
                   LocationAction.ActionType.Snapshot)])])
outcome = run_traced(handler, lambda: target.collect([], ["anna", "bob", "alma"]))
shutil.rmtree(directory, ignore_errors=True)

results = [captured(s) for s in push.pushed]
print("collect([], ...) returned", outcome.get('value'))
print("captured:", results)
if results != [[("return", "Size: 2")]]:
    print("WRONG: the invocation returned a list of 2 names, the captured result says %r (the argument as it was when "
          "the function was entered)" % results)
    sys.exit(1)
print("ok")
