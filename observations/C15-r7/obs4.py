"""
obs4 (unmodified tree): TriggerHandler.shutdown() removes the trace function of the calling thread
(sys.settrace(previous)) but does nothing about the work that is pending on that thread. A function that has a span
open (or a deferred snapshot pending) and shuts the agent down - e.g. a main() that calls deep.shutdown() at its end -
never gets its span closed, and the pending context stays in the (class level) per-thread store under the thread's
ident after the thread has ended.
"""
import shutil
import sys

from obs_common import EVENTS, RecordingSpans, RecordingPush, Config, load_target, captured
import threading
from deep.api.tracepoint.constants import STAGE, METHOD_CAPTURE, FIRE_COUNT, FIRE_PERIOD
from deep.api.tracepoint.trigger import Location, LocationAction, Trigger, FunctionLocation
from deep.processor.trigger_handler import TriggerHandler

SOURCE = '''
def main(agent):
    note("working")
    agent.shutdown()
    note("after shutdown")
    return 0


def note(what):
    EVENTS.append(("note", what))
'''

target, directory = load_target("c15_obs4_target", SOURCE)
config = Config({'NO_TRACE': False})
config.plugins = [RecordingSpans(config=config)]
push = RecordingPush()
handler = TriggerHandler(config, push)
limits = {FIRE_COUNT: -1, FIRE_PERIOD: 0}
triggers = [Trigger(FunctionLocation("c15_obs4_target.py", "main", Location.Position.START), [
    LocationAction("tp-span", None, dict(limits), LocationAction.ActionType.Span),
    LocationAction("tp-capture", None, dict(limits, **{STAGE: METHOD_CAPTURE}), LocationAction.ActionType.Snapshot)])]
info = {}


def body():
    info['ident'] = threading.get_ident()
    handler.start()  # installs the trace function for this thread (and new ones)
    handler.new_config(triggers)
    try:
        info['value'] = target.main(handler)
    finally:
        sys.settrace(None)
        threading.settrace(None)


thread = threading.Thread(target=body)
thread.start()
thread.join(60)
shutil.rmtree(directory, ignore_errors=True)

order = [e[:2] for e in EVENTS]
store = getattr(handler._callbacks, "_ThreadLocal__store", {})
left = list(store.get(info['ident'], []))
print("main() returned", info.get('value'))
print("events:", order)
print("pending contexts stored for the ended thread:", [c.name for c in left])
wrong = []
if ("close", "main") not in order:
    wrong.append("the span opened for main() was never closed")
if ("push", "main") not in order:
    wrong.append("the deferred snapshot of main() was never completed")
if left:
    wrong.append("%d pending context(s) are left under the ident of a thread that has ended" % len(left))
if wrong:
    print("WRONG: " + "; ".join(wrong))
    sys.exit(1)
print("ok")
