"""
obs3 (unmodified tree): a capture tracepoint that is configured the way the service / register_tracepoint() does it
(args {'stage': 'method_capture', 'method_name': ...}) is never deferred: build_snapshot_action() does not copy the
stage into the action's config, which is where SnapshotActionContext._is_deferred() looks for it. The snapshot is
handed to the push service at the triggering 'call' event - before the program has moved past it - and carries no
result.
"""
import shutil
import sys

from obs_common import EVENTS, RecordingPush, Config, load_target, run_traced, captured
from deep.api.tracepoint.constants import STAGE, METHOD_CAPTURE, METHOD_NAME, FIRE_COUNT, FIRE_PERIOD
from deep.api.tracepoint.trigger import build_trigger
from deep.processor.trigger_handler import TriggerHandler

SOURCE = '''
def area(width, height):
    note("area is running")
    return width * height


def note(what):
    EVENTS.append(("note", what))
'''

target, directory = load_target("c15_obs3_target", SOURCE)
push = RecordingPush()
handler = TriggerHandler(Config({}), push)
trigger = build_trigger("tp-capture", "c15_obs3_target.py", 2,
                        {STAGE: METHOD_CAPTURE, METHOD_NAME: "area", FIRE_COUNT: "-1", FIRE_PERIOD: "0"}, [], [])
handler.new_config([trigger])
outcome = run_traced(handler, lambda: target.area(6, 7))
shutil.rmtree(directory, ignore_errors=True)

order = [e[:2] for e in EVENTS]
print("area(6, 7) returned", outcome.get('value'))
print("events  :", order)
print("captured:", [captured(s) for s in push.pushed])
wrong = []
if order != [("note", "area is running"), ("push", "area")]:
    wrong.append("the snapshot of the method_capture tracepoint was completed at the triggering event, before the "
                 "function body ran")
if [captured(s) for s in push.pushed] != [[("return", "42")]]:
    wrong.append("it carries no captured result (42 expected)")
if wrong:
    print("WRONG: " + "; ".join(wrong))
    sys.exit(1)
print("ok")
