"""
obs1 (unmodified tree): an exception that is raised AND caught inside a function completes the function's method
span / method capture early, and the captured 'result' is that handled exception instead of the value the
invocation returns.
"""
import shutil
import sys

from obs_common import EVENTS, RecordingSpans, RecordingPush, Config, load_target, run_traced, captured
from deep.api.tracepoint.constants import STAGE, METHOD_CAPTURE, FIRE_COUNT, FIRE_PERIOD
from deep.api.tracepoint.trigger import Location, LocationAction, Trigger, FunctionLocation
from deep.processor.trigger_handler import TriggerHandler

SOURCE = '''
def parse_port(text):
    try:
        port = int(text)
    except ValueError:
        port = 8080
    note("still inside parse_port")
    return port


def note(what):
    EVENTS.append(("note", what))
'''

target, directory = load_target("c15_obs1_target", SOURCE)
config = Config({})
config.plugins = [RecordingSpans(config=config)]
push = RecordingPush()
handler = TriggerHandler(config, push)
limits = {FIRE_COUNT: -1, FIRE_PERIOD: 0}
handler.new_config([Trigger(FunctionLocation("c15_obs1_target.py", "parse_port", Location.Position.START), [
    LocationAction("tp-span", None, dict(limits), LocationAction.ActionType.Span),
    LocationAction("tp-capture", None, dict(limits, **{STAGE: METHOD_CAPTURE}), LocationAction.ActionType.Snapshot)])])
outcome = run_traced(handler, lambda: target.parse_port("http"))
shutil.rmtree(directory, ignore_errors=True)

order = [e[:2] for e in EVENTS]
results = [captured(s) for s in push.pushed]
print("parse_port('http') returned", outcome.get('value'))
print("events  :", order)
print("captured:", results)
wrong = []
if order.index(("close", "parse_port")) < order.index(("note", "still inside parse_port")):
    wrong.append("the span of parse_port was closed while parse_port was still running (at the handled ValueError)")
if results != [[("return", "8080")]]:
    wrong.append("the captured result is %r, the invocation returned 8080 and raised nothing" % results)
if wrong:
    print("WRONG: " + "; ".join(wrong))
    sys.exit(1)
print("ok")
