"""Shared scaffolding of the obsK.py reproduction scripts (unmodified tree)."""
import faulthandler
import importlib.util
import os
import sys
import tempfile
import threading

faulthandler.dump_traceback_later(120, exit=True)

from deep.api.plugin.span import SpanProcessor  # noqa: E402
from deep.api.resource import Resource  # noqa: E402
from deep.config import ConfigService  # noqa: E402
from deep.push.push_service import PushService  # noqa: E402

EVENTS = []


class RecordingSpan:
    def __init__(self, name):
        self.name = name

    def close(self):
        EVENTS.append(("close", self.name, threading.get_ident()))


class RecordingSpans(SpanProcessor):
    def create_span(self, name, context_id, tracepoint_id):
        EVENTS.append(("open", name, threading.get_ident()))
        return RecordingSpan(name)

    def current_span(self):
        return None


class RecordingPush(PushService):
    def __init__(self):
        super().__init__(None, None)
        self.pushed = []

    def push_snapshot(self, snapshot):
        self.pushed.append(snapshot)
        EVENTS.append(("push", snapshot.frames[0].method_name, threading.get_ident()))


class Config(ConfigService):
    @property
    def resource(self):
        return Resource.get_empty()


def load_target(name, source):
    directory = tempfile.mkdtemp(prefix="c15_obs_")
    path = os.path.join(directory, name + ".py")
    with open(path, "w") as handle:
        handle.write(source)
    spec = importlib.util.spec_from_file_location(name, path)
    module = importlib.util.module_from_spec(spec)
    module.EVENTS = EVENTS
    spec.loader.exec_module(module)
    return module, directory


def run_traced(handler, func):
    outcome = {}

    def body():
        outcome['ident'] = threading.get_ident()
        sys.settrace(handler.trace_call)
        try:
            outcome['value'] = func()
        except BaseException as e:
            outcome['error'] = e
        finally:
            outcome['trace_after'] = sys.gettrace()
            sys.settrace(None)

    thread = threading.Thread(target=body)
    thread.start()
    thread.join(60)
    return outcome


def captured(snapshot):
    out = []
    for watch in snapshot.watches:
        if watch.source == "CAPTURE":
            if watch.result is not None:
                out.append((watch.expression, snapshot.var_lookup[watch.result.vid].value))
            else:
                out.append((watch.expression, "error: %s" % watch.error))
    return out
