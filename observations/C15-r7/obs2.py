"""
obs2 (unmodified tree): when the application runs into the recursion limit while a span is pending, the handler's
own frames hit the limit first: the pending context has just been popped and is lost, the catch-all in
trace_call() fails again while logging, the RecursionError leaves the trace function and python removes the
trace function of the thread. The application handles its RecursionError and carries on; the span is never
closed, no later tracepoint fires on this thread.
"""
import shutil
import sys

from obs_common import EVENTS, RecordingSpans, RecordingPush, Config, load_target, run_traced
from deep.api.tracepoint.constants import FIRE_COUNT, FIRE_PERIOD
from deep.api.tracepoint.trigger import Location, LocationAction, Trigger, FunctionLocation
from deep.processor.trigger_handler import TriggerHandler

SOURCE = '''
def depth_of(tree):
    try:
        depth = descend(tree, 0)
    except RecursionError:
        depth = -1
    note("depth_of continues")
    return depth


def descend(tree, level):
    return descend(tree, level + 1)


def note(what):
    EVENTS.append(("note", what))
'''

target, directory = load_target("c15_obs2_target", SOURCE)
config = Config({})
config.plugins = [RecordingSpans(config=config)]
handler = TriggerHandler(config, RecordingPush())
handler.new_config([Trigger(FunctionLocation("c15_obs2_target.py", "depth_of", Location.Position.START), [
    LocationAction("tp-span", None, {FIRE_COUNT: -1, FIRE_PERIOD: 0}, LocationAction.ActionType.Span)])])
outcome = run_traced(handler, lambda: target.depth_of(None))
shutil.rmtree(directory, ignore_errors=True)

order = [e[:2] for e in EVENTS]
print("depth_of() returned", outcome.get('value'), "error:", outcome.get('error'))
print("events:", order)
print("trace function of the thread after the call:", outcome.get('trace_after'))
wrong = []
if ("close", "depth_of") not in order:
    wrong.append("the span opened for depth_of was never closed although depth_of returned normally")
if outcome.get('trace_after') is None:
    wrong.append("the thread's trace function was removed (an error left the agent's trace function)")
if wrong:
    print("WRONG: " + "; ".join(wrong))
    sys.exit(1)
print("ok")
