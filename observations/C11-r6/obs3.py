"""
obs3 (unmodified tree): argument values that are not interpreted as documented.

 a) stack_type=no_stack ("Do not collect the stack data"): ignored, the snapshot has the full stack.
 b) condition: documented as 'has to be "truthy" for this tracepoint to fire'. The result is turned into text and only
    the words yes/true/t/1/y count: 'len(items)' (3) or 'items' (a non-empty list) never fire, while a text variable
    that happens to hold "y" or "t" does; 'a > 1' works because str(True) == 'True'.
 c) path: the tracepoint path is compared with the BASE NAME of the file of the frame, so a tracepoint whose path
    has a directory part ('pkg/module.py', what a user copies from the repository view) never fires.

Run: cd /tmp/seed6_C11 && PYTHONPATH=/tmp/seed6_C11/src:/tmp/seed6_C11/tests /venv/bin/python obs3.py
"""
import faulthandler
import logging
import os
import sys

faulthandler.dump_traceback_later(60, exit=True)

# noinspection PyUnresolvedReferences
from deepproto.proto.tracepoint.v1.tracepoint_pb2 import TracePointConfig, Metric, MetricType, \
    LabelExpression  # noqa: E402
# noinspection PyUnresolvedReferences
from deepproto.proto.common.v1.common_pb2 import AnyValue  # noqa: E402

import deep.logging  # noqa: E402
from deep.api.resource import Resource  # noqa: E402
from deep.config import ConfigService  # noqa: E402
from deep.grpc import convert_response  # noqa: E402
from deep.processor.trigger_handler import TriggerHandler  # noqa: E402

THIS_FILE = os.path.basename(__file__)


class Push:
    def __init__(self):
        self.pushed = []

    def push_snapshot(self, snapshot):
        self.pushed.append(snapshot)


class Logger:
    """Stands in for the TracepointLogger plugin."""

    def __init__(self):
        self.logged = []

    def log_tracepoint(self, log_msg, tp_id, ctx_id):
        self.logged.append(log_msg)


class Config(ConfigService):
    def __init__(self, custom=None):
        super().__init__(custom or {})
        self.logger = Logger()

    @property
    def tracepoint_logger(self):
        return self.logger


def run(triggers, func, *args, plugins=None):
    config = Config()
    config.resource = Resource.get_empty()
    config.plugins = plugins or []
    push = Push()
    handler = TriggerHandler(config, push)
    handler.new_config(triggers)
    sys.settrace(handler.trace_call)
    try:
        func(*args)
    finally:
        sys.settrace(None)
    return push.pushed, config.logger.logged


def inner(items, flag):
    count = len(items)           # <- tracepoint line
    return count


def outer(items, flag):
    return inner(items, flag)


TP_LINE = inner.__code__.co_firstlineno + 1


def tp(args, path=THIS_FILE):
    return convert_response([TracePointConfig(ID="tp", path=path, line_number=TP_LINE, args=args)])


def main():
    deep.logging.init()
    problems = []

    pushed, _ = run(tp({"stack_type": "no_stack"}), outer, [1], "x")
    if len(pushed) == 1 and len(pushed[0].frames) > 1:
        problems.append("a) stack_type=no_stack: the snapshot has %d frames (%s ...)"
                        % (len(pushed[0].frames), [f.method_name for f in pushed[0].frames[:3]]))

    for condition, items, flag, expected in [("len(items) > 2", [1, 2, 3], "x", True),
                                             ("len(items)", [1, 2, 3], "x", True),
                                             ("items", [1, 2, 3], "x", True),
                                             ("flag", [], "maybe", True),
                                             ("flag == 'never'", [], "y", False),
                                             ("len(items)", [], "x", False)]:
        pushed, _ = run(tp({"condition": condition}), outer, items, flag)
        if (len(pushed) == 1) != expected:
            problems.append("b) condition %r with items=%r flag=%r: %s" % (
                condition, items, flag, "did not fire although the value is truthy" if expected
                else "fired although the value is falsy"))
    pushed, _ = run(tp({"condition": "flag"}), outer, [], "n")
    pushed2, _ = run(tp({"condition": "flag"}), outer, [], "y")
    if len(pushed) != len(pushed2):
        problems.append("b) condition 'flag': flag='n' fires %d times, flag='y' fires %d times (both are truthy text)"
                        % (len(pushed), len(pushed2)))

    real_dir = os.path.basename(os.path.dirname(os.path.abspath(__file__)))
    pushed, _ = run(tp({}, path=real_dir + "/" + THIS_FILE), outer, [1], "x")
    if len(pushed) == 0:
        problems.append("c) path '%s/%s' (the real directory of the file): the tracepoint never fires, with path '%s' "
                        "it does" % (real_dir, THIS_FILE, THIS_FILE))

    if problems:
        print("OBSERVED (unmodified tree): argument values are not interpreted as documented")
        for p in problems:
            print("  - " + p)
        return 1
    print("not reproduced")
    return 0


if __name__ == '__main__':
    sys.exit(main())
