"""
obs5 (unmodified tree): a tracepoint registered in code with a number as argument value never delivers its snapshot.

Deep.register_tracepoint(path, line, {'fire_count': 5}) is accepted, LocationAction reads the number (its __get_int
explicitly supports values that are not text "when the action is configured in code"), the tracepoint fires and the
snapshot is collected - but the snapshot carries the arguments of its tracepoint, and deep.push.convert_snapshot puts
them into a protobuf map<string, string>: "bad argument type for built-in operation"/TypeError, convert_snapshot
returns None and PushService._push_task drops the snapshot silently (one log line). With {'fire_count': '5'} it works.

Run: cd /tmp/seed6_C11 && PYTHONPATH=/tmp/seed6_C11/src:/tmp/seed6_C11/tests /venv/bin/python obs5.py
"""
import faulthandler
import logging
import os
import sys

faulthandler.dump_traceback_later(60, exit=True)

# noinspection PyUnresolvedReferences
from deepproto.proto.tracepoint.v1.tracepoint_pb2 import TracePointConfig, Metric, MetricType, \
    LabelExpression  # noqa: E402
# noinspection PyUnresolvedReferences
from deepproto.proto.common.v1.common_pb2 import AnyValue  # noqa: E402

import deep.logging  # noqa: E402
from deep.api.resource import Resource  # noqa: E402
from deep.config import ConfigService  # noqa: E402
from deep.grpc import convert_response  # noqa: E402
from deep.processor.trigger_handler import TriggerHandler  # noqa: E402

THIS_FILE = os.path.basename(__file__)


class Push:
    def __init__(self):
        self.pushed = []

    def push_snapshot(self, snapshot):
        self.pushed.append(snapshot)


class Logger:
    """Stands in for the TracepointLogger plugin."""

    def __init__(self):
        self.logged = []

    def log_tracepoint(self, log_msg, tp_id, ctx_id):
        self.logged.append(log_msg)


class Config(ConfigService):
    def __init__(self, custom=None):
        super().__init__(custom or {})
        self.logger = Logger()

    @property
    def tracepoint_logger(self):
        return self.logger


def run(triggers, func, *args, plugins=None):
    config = Config()
    config.resource = Resource.get_empty()
    config.plugins = plugins or []
    push = Push()
    handler = TriggerHandler(config, push)
    handler.new_config(triggers)
    sys.settrace(handler.trace_call)
    try:
        func(*args)
    finally:
        sys.settrace(None)
    return push.pushed, config.logger.logged

from deep.push import convert_snapshot  # noqa: E402


def target(a):
    b = a + 1                    # <- tracepoint line
    return b


TP_LINE = target.__code__.co_firstlineno + 1


def fire(args):
    config = Config()
    config.resource = Resource.get_empty()
    push = Push()
    handler = TriggerHandler(config, push)
    # what Deep.register_tracepoint does (without a task handler the listeners are told directly)
    config.tracepoints.add_custom(THIS_FILE, TP_LINE, args, [], [])
    config.tracepoints.update_listeners(0, None, None, None, None)
    sys.settrace(handler.trace_call)
    try:
        target(1)
    finally:
        sys.settrace(None)
    return push.pushed


def main():
    deep.logging.init()
    logging.getLogger().setLevel(logging.CRITICAL)
    problems = []
    for args in [{"fire_count": "5"}, {"fire_count": 5}, {"fire_period": 0, "fire_count": -1}]:
        pushed = fire(args)
        if len(pushed) != 1:
            problems.append("args %r: %d snapshots collected" % (args, len(pushed)))
            continue
        if convert_snapshot(pushed[0]) is None:
            problems.append("args %r: the snapshot was collected, but cannot be converted for sending "
                            "(convert_snapshot returns None, the push task drops it)" % (args,))
    if problems:
        print("OBSERVED (unmodified tree): snapshot of a tracepoint registered in code is lost")
        for p in problems:
            print("  - " + p)
        return 1
    print("not reproduced")
    return 0


if __name__ == '__main__':
    sys.exit(main())
