"""
obs1 (unmodified tree): the stage argument is not honoured for snapshots.

 a) stage=method_capture / line_capture: the snapshot is documented to be completed at the end of the method/line with
    the returned value ('return' watch). build_trigger does not hand the stage to the snapshot action
    (build_snapshot_action does not copy STAGE into the action config, SnapshotActionContext._is_deferred reads it
    from there), so the snapshot is sent at once, without the captured value. (The unit tests build the LocationAction
    by hand with {STAGE: METHOD_CAPTURE} in the action config, which a received tracepoint never has.)
 b) stage=method_end / line_end: the position END is stored in the location but never looked at, the tracepoint fires
    at the start (a 'call' event / before the line ran) exactly like method_start / line_start.

Run: cd /tmp/seed6_C11 && PYTHONPATH=/tmp/seed6_C11/src:/tmp/seed6_C11/tests /venv/bin/python obs1.py
"""
import faulthandler
import os
import sys

faulthandler.dump_traceback_later(60, exit=True)

# noinspection PyUnresolvedReferences
from deepproto.proto.tracepoint.v1.tracepoint_pb2 import TracePointConfig  # noqa: E402

import deep.logging  # noqa: E402
from deep.api.resource import Resource  # noqa: E402
from deep.config import ConfigService  # noqa: E402
from deep.grpc import convert_response  # noqa: E402
from deep.processor.trigger_handler import TriggerHandler  # noqa: E402

THIS_FILE = os.path.basename(__file__)


def target(a):
    b = a + 1                    # <- line tracepoints
    return b * 10


TP_LINE = target.__code__.co_firstlineno + 1


class Push:
    def __init__(self):
        self.pushed = []

    def push_snapshot(self, snapshot):
        self.pushed.append(snapshot)


def run(args, line):
    config = ConfigService({})
    config.resource = Resource.get_empty()
    push = Push()
    handler = TriggerHandler(config, push)
    handler.new_config(convert_response([TracePointConfig(ID="tp", path=THIS_FILE, line_number=line, args=args)]))
    sys.settrace(handler.trace_call)
    try:
        target(1)
    finally:
        sys.settrace(None)
    return push.pushed


def local_names(snapshot):
    return sorted(v.name for v in snapshot.frames[0].variables)


def main():
    deep.logging.init()
    problems = []

    for stage, args, line in [("method_capture", {"stage": "method_capture", "method_name": "target"}, 0),
                              ("line_capture", {"stage": "line_capture"}, TP_LINE)]:
        pushed = run(args, line)
        if len(pushed) != 1:
            problems.append("stage=%s: expected 1 snapshot, got %d" % (stage, len(pushed)))
            continue
        watches = [(w.expression, w.source) for w in pushed[0].watches]
        if stage == "method_capture" and ("return", "CAPTURE") not in watches:
            problems.append("stage=method_capture: the snapshot has no captured return value (watches: %s); it was "
                            "sent at the start of the method" % watches)
        if stage == "line_capture" and "b" not in local_names(pushed[0]):
            # a capture of the line is completed when the line has run; at least it must not be the plain line_start
            problems.append("stage=line_capture: handled exactly like line_start (sent before the line ran, nothing "
                            "captured; watches: %s)" % watches)

    pushed = run({"stage": "method_end", "method_name": "target"}, 0)
    if len(pushed) != 1:
        problems.append("stage=method_end: expected 1 snapshot, got %d" % len(pushed))
    elif "b" not in local_names(pushed[0]) or pushed[0].frames[0].line_number == target.__code__.co_firstlineno:
        problems.append("stage=method_end: fired at the START of the method (frame line %d = the def line, locals %s)"
                        % (pushed[0].frames[0].line_number, local_names(pushed[0])))

    pushed = run({"stage": "line_end"}, TP_LINE)
    if len(pushed) != 1:
        problems.append("stage=line_end: expected 1 snapshot, got %d" % len(pushed))
    elif "b" not in local_names(pushed[0]):
        problems.append("stage=line_end: fired BEFORE the line ran (locals %s, 'b' is assigned by that line)"
                        % local_names(pushed[0]))

    if problems:
        print("OBSERVED (unmodified tree): the stage argument is not interpreted as documented")
        for p in problems:
            print("  - " + p)
        return 1
    print("not reproduced")
    return 0


if __name__ == '__main__':
    sys.exit(main())
