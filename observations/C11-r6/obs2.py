"""
obs2 (unmodified tree): a tracepoint {span: method} WITHOUT method_name (the method is to be found from the line).

 a) It never creates a span: FunctionLocation.at_location tests 'start <= line >= end' (so the line would have to be
    behind the end of the function), and it compares the CURRENT line of the frame, not the line of the tracepoint.
 b) It does not only affect itself: for every trace event in the file it calls inspect.getsourcelines(frame). When the
    source of the file cannot be read (a deployment with .pyc files only, code compiled from a string, a file changed
    or removed after start) that raises OSError out of TriggerHandler.__actions_for_location, the whole event is
    given up ("Cannot process line event") and the OTHER tracepoints of the same response on that file never fire.

Run: cd /tmp/seed6_C11 && PYTHONPATH=/tmp/seed6_C11/src:/tmp/seed6_C11/tests /venv/bin/python obs2.py
"""
import faulthandler
import logging
import os
import sys

faulthandler.dump_traceback_later(60, exit=True)

# noinspection PyUnresolvedReferences
from deepproto.proto.tracepoint.v1.tracepoint_pb2 import TracePointConfig  # noqa: E402

import deep.logging  # noqa: E402
from deep.api.plugin.span import SpanProcessor  # noqa: E402
from deep.api.resource import Resource  # noqa: E402
from deep.config import ConfigService  # noqa: E402
from deep.grpc import convert_response  # noqa: E402
from deep.processor.trigger_handler import TriggerHandler  # noqa: E402

THIS_FILE = os.path.basename(__file__)


def target(a):
    b = a + 1                    # <- tracepoint line
    return b * 10


TP_LINE = target.__code__.co_firstlineno + 1

# the same function, but compiled from text: there is no source file to read for it
NO_SOURCE_FILE = "generated_module.py"
NO_SOURCE = "def generated(a):\n    b = a + 1\n    return b * 10\n"
namespace = {}
exec(compile(NO_SOURCE, "/opt/app/" + NO_SOURCE_FILE, "exec"), namespace)
generated = namespace["generated"]


class Spans(SpanProcessor):
    def __init__(self):
        super().__init__("Spans", None)
        self.created = []

    def create_span(self, name, context_id, tracepoint_id):
        self.created.append((name, tracepoint_id))

        class _Span:
            def close(self):
                pass

        return _Span()

    def current_span(self):
        return None


class Push:
    def __init__(self):
        self.pushed = []

    def push_snapshot(self, snapshot):
        self.pushed.append(snapshot)


def run(response, func):
    config = ConfigService({})
    config.resource = Resource.get_empty()
    spans = Spans()
    config.plugins = [spans]
    push = Push()
    handler = TriggerHandler(config, push)
    handler.new_config(convert_response(response))
    sys.settrace(handler.trace_call)
    try:
        func(1)
    finally:
        sys.settrace(None)
    return spans.created, [s.tracepoint.id for s in push.pushed]


def main():
    deep.logging.init()
    logging.getLogger("deep").setLevel(logging.CRITICAL)   # the agent logs a traceback per event in (b)
    problems = []

    span_by_line = {"span": "method", "snapshot": "no_collect"}
    created, _ = run([TracePointConfig(ID="tp-span", path=THIS_FILE, line_number=TP_LINE, args=span_by_line)], target)
    if not created:
        problems.append("a) {span: method} on line %d of target(): no span was created (with method_name=target it "
                        "is: %s)" % (TP_LINE, run([TracePointConfig(ID="tp-span", path=THIS_FILE, line_number=0,
                                                                    args=dict(span_by_line, method_name="target"))],
                                                  target)[0]))

    line_tp = TracePointConfig(ID="tp-line", path=NO_SOURCE_FILE, line_number=2, args={})
    _, alone = run([line_tp], generated)
    _, together = run([TracePointConfig(ID="tp-span", path=NO_SOURCE_FILE, line_number=2, args=span_by_line), line_tp],
                      generated)
    if alone == ["tp-line"] and together != ["tp-line"]:
        problems.append("b) file without readable source: the line tracepoint fires when it is alone in the response "
                        "(%s), but not when the response also has a {span: method} tracepoint for that file (%s)"
                        % (alone, together))

    if problems:
        print("OBSERVED (unmodified tree): {span: method} without method_name")
        for p in problems:
            print("  - " + p)
        return 1
    print("not reproduced")
    return 0


if __name__ == '__main__':
    sys.exit(main())
