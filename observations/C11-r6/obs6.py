"""
obs6 (unmodified tree): "one metric per metric definition" does not hold with the shipped Prometheus plugin when two
metric definitions share a name.

PrometheusPlugin caches the collectors by '<name>_<type>' only. The namespace and the label names are not part of the
key, so for two tracepoints (or two definitions of one tracepoint) with the same metric name
 a) different label names: the second one is passed to the collector of the first one, prometheus_client raises
    "Incorrect label names", the plugin logs it and the metric is lost;
 b) different namespaces: the second one is counted into the collector of the first namespace, the metric
    '<namespace2>_<name>' never exists.

Run: cd /tmp/seed6_C11 && PYTHONPATH=/tmp/seed6_C11/src:/tmp/seed6_C11/tests /venv/bin/python obs6.py
"""
import faulthandler
import logging
import os
import sys

faulthandler.dump_traceback_later(60, exit=True)

# noinspection PyUnresolvedReferences
from deepproto.proto.tracepoint.v1.tracepoint_pb2 import TracePointConfig, Metric, MetricType, \
    LabelExpression  # noqa: E402
# noinspection PyUnresolvedReferences
from deepproto.proto.common.v1.common_pb2 import AnyValue  # noqa: E402

import deep.logging  # noqa: E402
from deep.api.resource import Resource  # noqa: E402
from deep.config import ConfigService  # noqa: E402
from deep.grpc import convert_response  # noqa: E402
from deep.processor.trigger_handler import TriggerHandler  # noqa: E402

THIS_FILE = os.path.basename(__file__)


class Push:
    def __init__(self):
        self.pushed = []

    def push_snapshot(self, snapshot):
        self.pushed.append(snapshot)


class Logger:
    """Stands in for the TracepointLogger plugin."""

    def __init__(self):
        self.logged = []

    def log_tracepoint(self, log_msg, tp_id, ctx_id):
        self.logged.append(log_msg)


class Config(ConfigService):
    def __init__(self, custom=None):
        super().__init__(custom or {})
        self.logger = Logger()

    @property
    def tracepoint_logger(self):
        return self.logger


def run(triggers, func, *args, plugins=None):
    config = Config()
    config.resource = Resource.get_empty()
    config.plugins = plugins or []
    push = Push()
    handler = TriggerHandler(config, push)
    handler.new_config(triggers)
    sys.settrace(handler.trace_call)
    try:
        func(*args)
    finally:
        sys.settrace(None)
    return push.pushed, config.logger.logged

import prometheus_client  # noqa: E402
from deep.api.plugin.metric.prometheus_metrics import PrometheusPlugin  # noqa: E402


def func_a(user):
    a = user + "!"               # <- tracepoint A
    return a


def func_b(host):
    b = host + "?"               # <- tracepoint B
    return b


def both():
    func_a("alice")
    func_b("web-1")


LINE_A = func_a.__code__.co_firstlineno + 1
LINE_B = func_b.__code__.co_firstlineno + 1
ARGS = {"snapshot": "no_collect"}


def sample(name, labels=None):
    return prometheus_client.REGISTRY.get_sample_value(name, labels or {})


def main():
    deep.logging.init()
    logging.getLogger("deep").setLevel(logging.CRITICAL)
    problems = []

    plugin = PrometheusPlugin(None)
    try:
        run(convert_response([
            TracePointConfig(ID="tp-A", path=THIS_FILE, line_number=LINE_A, args=ARGS, metrics=[
                Metric(name="obs6_requests", type=MetricType.COUNTER,
                       labelExpressions=[LabelExpression(key="user", expression="user")])]),
            TracePointConfig(ID="tp-B", path=THIS_FILE, line_number=LINE_B, args=ARGS, metrics=[
                Metric(name="obs6_requests", type=MetricType.COUNTER,
                       labelExpressions=[LabelExpression(key="host", expression="host")])]),
        ]), both, plugins=[plugin])
        a = sample("deep_obs6_requests_total", {"user": "alice"})
        b = sample("deep_obs6_requests_total", {"host": "web-1"})
        if a != 1.0 or b != 1.0:
            problems.append("a) same name, different label names: tracepoint A counted %s, tracepoint B counted %s "
                            "(expected 1.0 each, or at least an error that names the conflict to the user)" % (a, b))
    finally:
        plugin.clear()

    plugin = PrometheusPlugin(None)
    try:
        run(convert_response([
            TracePointConfig(ID="tp-A", path=THIS_FILE, line_number=LINE_A, args=ARGS, metrics=[
                Metric(name="obs6_jobs", type=MetricType.COUNTER, namespace="billing")]),
            TracePointConfig(ID="tp-B", path=THIS_FILE, line_number=LINE_B, args=ARGS, metrics=[
                Metric(name="obs6_jobs", type=MetricType.COUNTER, namespace="shipping")]),
        ]), both, plugins=[plugin])
        a = sample("billing_obs6_jobs_total")
        b = sample("shipping_obs6_jobs_total")
        if a != 1.0 or b != 1.0:
            problems.append("b) same name, different namespaces: billing_obs6_jobs_total=%s "
                            "shipping_obs6_jobs_total=%s (expected 1.0 and 1.0)" % (a, b))
    finally:
        plugin.clear()

    if problems:
        print("OBSERVED (unmodified tree): metric definitions with the same name are mixed up by the Prometheus plugin")
        for p in problems:
            print("  - " + p)
        return 1
    print("not reproduced")
    return 0


if __name__ == '__main__':
    sys.exit(main())
