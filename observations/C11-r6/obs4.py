"""
obs4 (unmodified tree): a log message that python's str.format machinery does not like costs the whole tracepoint.

The log message is interpolated with string.Formatter. Every {field} is replaced by TEXT (the rendered watch), and is
then formatted with the format spec of the field: 'took {elapsed:.2f}s' raises "Unknown format code 'f' for object of
type 'str'"; a message with a single brace ('progress: 50% {') raises "Single '{' encountered". The exception leaves
SnapshotActionContext._process_action before the snapshot is attached: no log line AND no snapshot, the fire count is
used up. (Only the log action of the tracepoint should be affected; unknown text is otherwise kept as it is, e.g.
'{nosuchname}' is logged with the error text.)

Run: cd /tmp/seed6_C11 && PYTHONPATH=/tmp/seed6_C11/src:/tmp/seed6_C11/tests /venv/bin/python obs4.py
"""
import faulthandler
import logging
import os
import sys

faulthandler.dump_traceback_later(60, exit=True)

# noinspection PyUnresolvedReferences
from deepproto.proto.tracepoint.v1.tracepoint_pb2 import TracePointConfig, Metric, MetricType, \
    LabelExpression  # noqa: E402
# noinspection PyUnresolvedReferences
from deepproto.proto.common.v1.common_pb2 import AnyValue  # noqa: E402

import deep.logging  # noqa: E402
from deep.api.resource import Resource  # noqa: E402
from deep.config import ConfigService  # noqa: E402
from deep.grpc import convert_response  # noqa: E402
from deep.processor.trigger_handler import TriggerHandler  # noqa: E402

THIS_FILE = os.path.basename(__file__)


class Push:
    def __init__(self):
        self.pushed = []

    def push_snapshot(self, snapshot):
        self.pushed.append(snapshot)


class Logger:
    """Stands in for the TracepointLogger plugin."""

    def __init__(self):
        self.logged = []

    def log_tracepoint(self, log_msg, tp_id, ctx_id):
        self.logged.append(log_msg)


class Config(ConfigService):
    def __init__(self, custom=None):
        super().__init__(custom or {})
        self.logger = Logger()

    @property
    def tracepoint_logger(self):
        return self.logger


def run(triggers, func, *args, plugins=None):
    config = Config()
    config.resource = Resource.get_empty()
    config.plugins = plugins or []
    push = Push()
    handler = TriggerHandler(config, push)
    handler.new_config(triggers)
    sys.settrace(handler.trace_call)
    try:
        func(*args)
    finally:
        sys.settrace(None)
    return push.pushed, config.logger.logged


def target(elapsed):
    done = elapsed * 2           # <- tracepoint line
    return done


TP_LINE = target.__code__.co_firstlineno + 1


def main():
    deep.logging.init()
    logging.getLogger("deep").setLevel(logging.CRITICAL)
    problems = []
    for log_msg in ["took {elapsed}s", "took {elapsed:.2f}s", "progress: 50% {", "{elapsed!r:>10}"]:
        triggers = convert_response([TracePointConfig(ID="tp", path=THIS_FILE, line_number=TP_LINE,
                                                      args={"log_msg": log_msg})])
        pushed, logged = run(triggers, target, 1.23456)
        if len(pushed) != 1:
            problems.append("log_msg %r: %d snapshots (expected 1), log lines: %s" % (log_msg, len(pushed), logged))
    if problems:
        print("OBSERVED (unmodified tree): the snapshot of a tracepoint is lost because of its log message")
        for p in problems:
            print("  - " + p)
        return 1
    print("not reproduced")
    return 0


if __name__ == '__main__':
    sys.exit(main())
