"""
Observation 2 (unmodified tree, C12): configuration updates are applied by the same two worker threads that upload
snapshots, and neither the snapshot upload (stub.send) nor the poll (stub.poll) is given a deadline. When the service
accepts the connection but does not answer two uploads, both workers are blocked; a configuration UPDATE received
afterwards is stored (the agent reports its hash as current from the next poll on, and gets 'no change' for ever) but is
never installed in the trigger handler: the agent keeps acting on the old configuration (here: on a tracepoint the
service has deleted) for as long as the uploads hang.

Exits 1 and prints what is wrong when the defect is present.
"""
import threading
import os
import sys
import time

# noinspection PyUnresolvedReferences
from deepproto.proto.poll.v1.poll_pb2 import PollResponse, ResponseType
# noinspection PyUnresolvedReferences
from deepproto.proto.tracepoint.v1.tracepoint_pb2 import TracePointConfig

from deep.api import Deep
from deep.api.resource import Resource
from deep.config import ConfigService

THIS_FILE = os.path.basename(__file__)
ARGS = {'fire_count': '-1', 'fire_period': '0'}


def target(value):
    first = value + 1  # LINE_A
    second = first * 2  # LINE_B
    return second


LINE_A = target.__code__.co_firstlineno + 1
LINE_B = target.__code__.co_firstlineno + 2


class FakeChannel:
    """Stands in for the grpc channel, answers the poll with whatever the 'service' currently has."""

    def __init__(self):
        self.hash = "hash-0"
        self.tracepoints = []
        self.requests = []

    def unary_unary(self, method, *args, **kwargs):
        def call(request, **_kwargs):
            if not method.endswith("/poll"):
                return None
            self.requests.append(request)
            if request.current_hash == self.hash:
                return PollResponse(ts_nanos=request.ts_nanos, current_hash=self.hash,
                                    response_type=ResponseType.NO_CHANGE)
            return PollResponse(ts_nanos=request.ts_nanos, current_hash=self.hash, response=self.tracepoints,
                                response_type=ResponseType.UPDATE)

        return call


def settle(deep):
    """Wait until the background tasks of the agent are done."""
    deadline = time.time() + 10
    while time.time() < deadline:
        if len(deep.task_handler._pending) == 0:
            time.sleep(0.05)
            if len(deep.task_handler._pending) == 0:
                return
        time.sleep(0.01)
    raise RuntimeError("background tasks did not settle")


def acted_on(deep, pushed):
    """Run the target with the agent's trace function, return the ids of the tracepoints that produced a snapshot."""
    del pushed[:]
    sys.settrace(deep.trigger_handler.trace_call)
    try:
        target(1)
    finally:
        sys.settrace(None)
    return sorted(snapshot.tracepoint.id for snapshot in pushed)


def main():
    deep = Deep(ConfigService({'SERVICE_URL': '127.0.0.1:1', 'SERVICE_SECURE': 'False'}))
    deep.config.resource = Resource.create()
    channel = FakeChannel()
    deep.grpc.channel = channel

    # the real PushService is used; the 'service' does not answer the uploads until we let it
    release = threading.Event()
    call_kwargs = {}
    poll_calls = channel.unary_unary

    def unary_unary(method, *args, **kwargs):
        if method.endswith("/poll"):
            inner = poll_calls(method, *args, **kwargs)

            def poll(request, **kw):
                call_kwargs['poll'] = kw
                return inner(request, **kw)

            return poll

        def send(request, **kw):
            call_kwargs['send'] = kw
            release.wait(60)
            return None

        return send

    channel.unary_unary = unary_unary

    channel.tracepoints = [TracePointConfig(ID="old-tp", path=THIS_FILE, line_number=LINE_A, args=ARGS)]
    channel.hash = "hash-1"
    deep.poll.poll()
    settle(deep)

    # two hits -> two uploads that hang
    for _ in range(2):
        sys.settrace(deep.trigger_handler.trace_call)
        try:
            target(1)
        finally:
            sys.settrace(None)
    time.sleep(0.5)

    # the service replaces the tracepoint
    channel.tracepoints = [TracePointConfig(ID="new-tp", path=THIS_FILE, line_number=LINE_B, args=ARGS)]
    channel.hash = "hash-2"
    deep.poll.poll()
    time.sleep(3)
    deep.poll.poll()
    reported = channel.requests[-1].current_hash
    installed = [action.id for trigger in deep.trigger_handler._tp_config for action in trigger.actions]

    problems = []
    if 'timeout' not in call_kwargs.get('send', {}) or 'timeout' not in call_kwargs.get('poll', {}):
        problems.append("rpcs are made without a deadline: send kwargs %s, poll kwargs %s" % (
            sorted(call_kwargs.get('send', {})), sorted(call_kwargs.get('poll', {}))))
    if installed != ["new-tp"]:
        problems.append("3 s after the UPDATE the agent reports hash %r but still acts on %s (expected ['new-tp']); "
                        "both workers are blocked in snapshot uploads" % (reported, installed))
    release.set()
    settle(deep)
    after = [action.id for trigger in deep.trigger_handler._tp_config for action in trigger.actions]
    print("after the uploads were answered the agent acts on %s" % after)
    if problems:
        print("DEFECT PRESENT")
        for problem in problems:
            print(" - " + problem)
        return 1
    print("OK")
    return 0


if __name__ == '__main__':
    code = main()
    sys.stdout.flush()
    os._exit(code)
