"""
Observation 3 (unmodified tree, C12): Deep.shutdown() followed by Deep.start() on the same object (the 'started' flag
is reset by shutdown, so start() does run again) leaves the agent with no tracepoints although it keeps reporting the
hash of the configuration it had: TriggerHandler.shutdown() drops the installed tracepoints, the config service keeps
hash and configuration, so the service answers 'no change' and nothing is installed again. When the service later does
send an UPDATE, the config service stores hash and configuration and then TaskHandler.submit_task raises
IllegalStateException (the task handler stays closed after flush()); that is a BaseException, it is not caught by
'except Exception' in RepeatedTimer / LongPoll, so it escapes (from start(), or it ends the poll thread).

Exits 1 and prints what is wrong when the defect is present.
"""
import os
import sys
import time

# noinspection PyUnresolvedReferences
from deepproto.proto.poll.v1.poll_pb2 import PollResponse, ResponseType
# noinspection PyUnresolvedReferences
from deepproto.proto.tracepoint.v1.tracepoint_pb2 import TracePointConfig

from deep.api import Deep
from deep.api.resource import Resource
from deep.config import ConfigService

THIS_FILE = os.path.basename(__file__)
ARGS = {'fire_count': '-1', 'fire_period': '0'}


def target(value):
    first = value + 1  # LINE_A
    second = first * 2  # LINE_B
    return second


LINE_A = target.__code__.co_firstlineno + 1
LINE_B = target.__code__.co_firstlineno + 2


class FakeChannel:
    """Stands in for the grpc channel, answers the poll with whatever the 'service' currently has."""

    def __init__(self):
        self.hash = "hash-0"
        self.tracepoints = []
        self.requests = []

    def unary_unary(self, method, *args, **kwargs):
        def call(request, **_kwargs):
            if not method.endswith("/poll"):
                return None
            self.requests.append(request)
            if request.current_hash == self.hash:
                return PollResponse(ts_nanos=request.ts_nanos, current_hash=self.hash,
                                    response_type=ResponseType.NO_CHANGE)
            return PollResponse(ts_nanos=request.ts_nanos, current_hash=self.hash, response=self.tracepoints,
                                response_type=ResponseType.UPDATE)

        return call


def settle(deep):
    """Wait until the background tasks of the agent are done."""
    deadline = time.time() + 10
    while time.time() < deadline:
        if len(deep.task_handler._pending) == 0:
            time.sleep(0.05)
            if len(deep.task_handler._pending) == 0:
                return
        time.sleep(0.01)
    raise RuntimeError("background tasks did not settle")


def acted_on(deep, pushed):
    """Run the target with the agent's trace function, return the ids of the tracepoints that produced a snapshot."""
    del pushed[:]
    sys.settrace(deep.trigger_handler.trace_call)
    try:
        target(1)
    finally:
        sys.settrace(None)
    return sorted(snapshot.tracepoint.id for snapshot in pushed)


def main():
    deep = Deep(ConfigService({'SERVICE_URL': '127.0.0.1:1', 'SERVICE_SECURE': 'False', 'POLL_TIMER': 0.3}))
    channel = FakeChannel()
    deep.grpc.start = lambda: setattr(deep.grpc, 'channel', channel)  # no network here
    pushed = []
    deep.push.push_snapshot = pushed.append

    channel.tracepoints = [TracePointConfig(ID="service-tp", path=THIS_FILE, line_number=LINE_A, args=ARGS)]
    channel.hash = "hash-1"
    deep.start()
    settle(deep)
    first = acted_on(deep, pushed)
    deep.shutdown()
    sys.settrace(None)

    problems = []
    try:
        deep.start()
    except BaseException as e:
        problems.append("second start() raised %s" % type(e).__name__)
    time.sleep(1)
    sys.settrace(None)
    got = acted_on(deep, pushed)
    reported = channel.requests[-1].current_hash
    if first != ["service-tp"]:
        problems.append("first run acted on %s" % first)
    if got != ["service-tp"]:
        problems.append("after shutdown()+start() the agent reports hash %r (service: %r, answers 'no change') but acts "
                        "on %s instead of ['service-tp']" % (reported, channel.hash, got))

    # now the service changes the configuration
    polls_before = len(channel.requests)
    channel.tracepoints = [TracePointConfig(ID="service-tp-2", path=THIS_FILE, line_number=LINE_B, args=ARGS)]
    channel.hash = "hash-2"
    time.sleep(1.5)
    timer = deep.poll.timer
    alive = timer is not None and timer.thread.is_alive()
    got = acted_on(deep, pushed)
    if got != ["service-tp-2"]:
        problems.append("after the service changed the configuration to hash-2 the agent reports %r and acts on %s "
                        "instead of ['service-tp-2']" % (deep.config.tracepoints.current_hash, got))
    if not alive:
        problems.append("the poll thread has ended (%d polls after the change)" % (len(channel.requests) - polls_before))

    if problems:
        print("DEFECT PRESENT")
        for problem in problems:
            print(" - " + problem)
        return 1
    print("OK")
    return 0


if __name__ == '__main__':
    code = main()
    sys.stdout.flush()
    os._exit(code)
