"""
Observation 1 (unmodified tree, C12): a poll answer the agent cannot interpret - a response_type that is neither
NO_CHANGE nor UPDATE (proto3 enums are open, e.g. a newer service version) - is treated as an UPDATE. The answer carries
no configuration and no hash, so the last good configuration is thrown away and the agent reports the hash ''.

Expected by C12: an unintelligible poll leaves the last good configuration in force.
Exits 1 and prints what is wrong when the defect is present.
"""
import os
import sys
import time

# noinspection PyUnresolvedReferences
from deepproto.proto.poll.v1.poll_pb2 import PollResponse, ResponseType
# noinspection PyUnresolvedReferences
from deepproto.proto.tracepoint.v1.tracepoint_pb2 import TracePointConfig

from deep.api import Deep
from deep.api.resource import Resource
from deep.config import ConfigService

THIS_FILE = os.path.basename(__file__)
ARGS = {'fire_count': '-1', 'fire_period': '0'}


def target(value):
    first = value + 1  # LINE_A
    second = first * 2  # LINE_B
    return second


LINE_A = target.__code__.co_firstlineno + 1
LINE_B = target.__code__.co_firstlineno + 2


class FakeChannel:
    """Stands in for the grpc channel, answers the poll with whatever the 'service' currently has."""

    def __init__(self):
        self.hash = "hash-0"
        self.tracepoints = []
        self.requests = []

    def unary_unary(self, method, *args, **kwargs):
        def call(request, **_kwargs):
            if not method.endswith("/poll"):
                return None
            self.requests.append(request)
            if request.current_hash == self.hash:
                return PollResponse(ts_nanos=request.ts_nanos, current_hash=self.hash,
                                    response_type=ResponseType.NO_CHANGE)
            return PollResponse(ts_nanos=request.ts_nanos, current_hash=self.hash, response=self.tracepoints,
                                response_type=ResponseType.UPDATE)

        return call


def settle(deep):
    """Wait until the background tasks of the agent are done."""
    deadline = time.time() + 10
    while time.time() < deadline:
        if len(deep.task_handler._pending) == 0:
            time.sleep(0.05)
            if len(deep.task_handler._pending) == 0:
                return
        time.sleep(0.01)
    raise RuntimeError("background tasks did not settle")


def acted_on(deep, pushed):
    """Run the target with the agent's trace function, return the ids of the tracepoints that produced a snapshot."""
    del pushed[:]
    sys.settrace(deep.trigger_handler.trace_call)
    try:
        target(1)
    finally:
        sys.settrace(None)
    return sorted(snapshot.tracepoint.id for snapshot in pushed)


def main():
    deep = Deep(ConfigService({'SERVICE_URL': '127.0.0.1:1', 'SERVICE_SECURE': 'False'}))
    deep.config.resource = Resource.create()
    channel = FakeChannel()
    deep.grpc.channel = channel
    pushed = []
    deep.push.push_snapshot = pushed.append

    channel.tracepoints = [TracePointConfig(ID="service-tp", path=THIS_FILE, line_number=LINE_A, args=ARGS)]
    channel.hash = "hash-1"
    deep.poll.poll()
    settle(deep)
    assert acted_on(deep, pushed) == ["service-tp"]

    # the next answer has an unknown response type (and nothing else)
    good = channel.unary_unary
    channel.unary_unary = lambda method, *a, **kw: (lambda request, **_kw: PollResponse(ts_nanos=request.ts_nanos,
                                                                                        response_type=7))
    try:
        deep.poll.poll()
    except Exception as e:
        print("poll raised %s (fine, the timer logs it and carries on)" % type(e).__name__)
    settle(deep)
    channel.unary_unary = good

    problems = []
    got = acted_on(deep, pushed)
    if got != ["service-tp"]:
        problems.append("after a poll answer with unknown response_type=7 the agent acts on %s, the last good "
                        "configuration was ['service-tp']" % got)
    if deep.config.tracepoints.current_hash != "hash-1":
        problems.append("the agent now reports hash %r instead of 'hash-1'" % deep.config.tracepoints.current_hash)
    if problems:
        print("DEFECT PRESENT")
        for problem in problems:
            print(" - " + problem)
        return 1
    print("OK")
    return 0


if __name__ == '__main__':
    code = main()
    sys.stdout.flush()
    os._exit(code)
