"""
obs2 (unmodified tree) - a tracepoint of the latest configuration is never acted on in functions that were entered
while the agent had no tracepoints.

TriggerHandler.__trace_call returns None ('do not trace this scope') for every 'call' event while its config is empty.
Python then never calls the trace function again for that frame, whatever is configured later. A thread whose main
function (a worker loop, a request loop, ...) was entered before the first configuration arrived - the normal case, the
first poll answer arrives after the application has started - never triggers the line tracepoints in that function,
although the same tracepoint fires in a thread that enters the function afterwards.
(Frames that exist before sys.settrace is called are a limitation of python; this one is the agent's own doing, the
trace function is installed and is called for the frame.)
"""
import faulthandler
import os
import sys
import threading
import time

from deep.api.resource import Resource
from deep.api.tracepoint.trigger import build_trigger
from deep.config import ConfigService
from deep.processor.trigger_handler import TriggerHandler
from deep.task import TaskHandler

faulthandler.dump_traceback_later(60, exit=True)

stop = threading.Event()


def worker_loop(counter):
    while not stop.is_set():
        counter[0] += 1  # the tracepoint is on this line
        time.sleep(0.01)


TP_FILE = os.path.basename(__file__)
TP_LINE = worker_loop.__code__.co_firstlineno + 2
ARGS = {'fire_count': '-1', 'fire_period': '0'}


class CapturePush:
    def __init__(self):
        self.pushed = []

    def push_snapshot(self, snapshot):
        self.pushed.append(threading.current_thread().name)


def main():
    config = ConfigService({})
    config.resource = Resource.create()
    task_handler = TaskHandler()
    config.set_task_handler(task_handler)
    push = CapturePush()
    handler = TriggerHandler(config, push)
    handler.start()  # sys.settrace / threading.settrace
    try:
        early_count = [0]
        early = threading.Thread(target=worker_loop, args=(early_count,), name="early")
        early.start()  # entered while there is no tracepoint
        time.sleep(0.2)

        # the first configuration arrives
        config.tracepoints.update_new_config(1, 'h1', [build_trigger('tp-1', TP_FILE, TP_LINE, dict(ARGS), [], [])])
        end = time.time() + 5
        while task_handler._pending and time.time() < end:
            time.sleep(0.01)
        before = early_count[0]
        time.sleep(1)
        early_hits = push.pushed.count("early")
        early_passes = early_count[0] - before

        late_count = [0]
        late = threading.Thread(target=worker_loop, args=(late_count,), name="late")
        late.start()
        time.sleep(0.5)
        late_hits = push.pushed.count("late")
    finally:
        stop.set()
        handler.shutdown()
        task_handler.flush()

    print("thread 'early' (in worker_loop before the config arrived): passed the line %d times after the config was "
          "installed, tracepoint fired %d times" % (early_passes, early_hits))
    print("thread 'late'  (entered worker_loop afterwards): tracepoint fired %d times" % late_hits)
    if late_hits > 0 and early_passes > 0 and early_hits == 0:
        print("WRONG: the tracepoint of the current configuration is never acted on in the thread that was already "
              "running")
        return 1
    print("ok")
    return 0


if __name__ == '__main__':
    sys.exit(main())
