"""
obs1 (unmodified tree) - two threads that unregister tracepoints at the same time can remove the wrong one.

TracepointConfigService.remove_custom() looks up the position of the trigger in self._custom and then deletes by that
position ('del self._custom[idx]'). Nothing keeps another thread from removing an earlier element in between: the
position is then stale and the delete hits the NEXT registration. Result once everything has settled:
  - the tracepoint that was unregistered is still installed (and can no longer be unregistered, its id is gone),
  - a tracepoint that is still registered in code is no longer installed.

The interleaving is forced here with a trace function in the unregistering thread that waits on the 'del' line (a thread
switch between the comparison and the delete is all that is needed).
"""
import faulthandler
import inspect
import os
import sys
import threading
import time

from deep.api.resource import Resource
from deep.config import ConfigService
from deep.config.tracepoint_config import TracepointConfigService
from deep.processor.trigger_handler import TriggerHandler
from deep.task import TaskHandler

faulthandler.dump_traceback_later(60, exit=True)


def target(x):
    a = x + 1  # L0
    b = a + 1  # L1
    c = b + 1  # L2
    return c


TP_FILE = os.path.basename(__file__)
L0 = target.__code__.co_firstlineno + 1
ARGS = {'fire_count': '-1', 'fire_period': '0'}

# the line 'del self._custom[idx]' of remove_custom
lines, first = inspect.getsourcelines(TracepointConfigService.remove_custom)
DEL_LINE = first + [i for i, text in enumerate(lines) if 'del self._custom[idx]' in text][0]
SERVICE_FILE = inspect.getsourcefile(TracepointConfigService)


class CapturePush:
    def __init__(self):
        self.pushed = []

    def push_snapshot(self, snapshot):
        self.pushed.append(snapshot.tracepoint.id)


def settle(task_handler):
    end = time.time() + 10
    while task_handler._pending and time.time() < end:
        time.sleep(0.01)


def main():
    config = ConfigService({})
    config.resource = Resource.create()
    task_handler = TaskHandler()
    config.set_task_handler(task_handler)
    push = CapturePush()
    handler = TriggerHandler(config, push)
    service = config.tracepoints

    ids = [service.add_custom(TP_FILE, L0 + n, dict(ARGS), [], []) for n in range(3)]
    names = {ids[0]: 'tp0', ids[1]: 'tp1', ids[2]: 'tp2'}

    at_delete = threading.Event()
    go_on = threading.Event()

    def pause_on_delete(frame, event, arg):
        if frame.f_code.co_filename != SERVICE_FILE or frame.f_code.co_name != 'remove_custom':
            return None

        def local(frame_, event_, arg_):
            if event_ == 'line' and frame_.f_lineno == DEL_LINE:
                at_delete.set()
                go_on.wait(10)
            return local

        return local

    def unregister_tp1():
        sys.settrace(pause_on_delete)
        try:
            service.remove_custom(ids[1])
        finally:
            sys.settrace(None)

    thread = threading.Thread(target=unregister_tp1)
    thread.start()
    if not at_delete.wait(10):
        print("could not force the interleaving")
        return 2
    # the other thread has found tp1 at position 1 and is about to delete it; meanwhile tp0 is unregistered here
    service.remove_custom(ids[0])
    go_on.set()
    thread.join(10)
    settle(task_handler)

    sys.settrace(handler.trace_call)
    try:
        target(1)
    finally:
        sys.settrace(None)
    task_handler.flush()

    fired = sorted(names[i] for i in push.pushed)
    print("registered tp0, tp1, tp2; unregistered tp0 and tp1 (concurrently); still registered: tp2")
    print("tracepoints that fire once everything has settled: %s" % fired)
    if fired != ['tp2']:
        print("WRONG: expected ['tp2'] - the unregistered tp1 is still installed (and unregistering it again does "
              "nothing: %s), the registered tp2 was dropped" % ('its id is unknown now' if ids[1] not in service._custom_ids
                                                              else 'id still known'))
        return 1
    print("ok")
    return 0


def stress():
    """Without forcing anything: two threads unregister 30 tracepoints each, with a short switch interval."""
    sys.setswitchinterval(1e-6)
    bad = 0
    for _ in range(200):
        service = TracepointConfigService()
        ids = [service.add_custom("f.py", n, {}, [], []) for n in range(60)]
        barrier = threading.Barrier(2)

        def remove(part):
            barrier.wait()
            for tp_id in part:
                service.remove_custom(tp_id)

        threads = [threading.Thread(target=remove, args=(ids[n::2],)) for n in range(2)]
        [t.start() for t in threads]
        [t.join() for t in threads]
        if service._custom:
            bad += 1
    print("rounds in which registrations were left over after all 60 had been unregistered: %d of 200" % bad)
    return 1 if bad else 0


if __name__ == '__main__':
    sys.exit(stress() if '--stress' in sys.argv else main())
