"""
obs3 (unmodified tree) - a tracepoint whose path has a directory part is installed but never acted on.

TriggerHandler.location_from_event reduces the file of the frame to its base name, LineLocation/FunctionLocation compare
that with the path of the tracepoint as it was sent ('file == self.path'). A tracepoint for 'pkg/obs3.py' (or the absolute
path of the file) is part of the configuration the agent reports as installed (hash), but can never match; only the bare
file name 'obs3.py' works. (This is about matching rather than about convergence, it is listed because the installed set
is then not the set the agent acts on.)
"""
import os
import sys

from deep.api.resource import Resource
from deep.api.tracepoint.trigger import build_trigger
from deep.config import ConfigService
from deep.processor.trigger_handler import TriggerHandler


def target(x):
    y = x + 1  # the tracepoint is on this line
    return y


TP_LINE = target.__code__.co_firstlineno + 1
ARGS = {'fire_count': '-1', 'fire_period': '0'}


class CapturePush:
    def __init__(self):
        self.pushed = []

    def push_snapshot(self, snapshot):
        self.pushed.append(snapshot.tracepoint.id)


def main():
    config = ConfigService({})
    config.resource = Resource.create()
    push = CapturePush()
    handler = TriggerHandler(config, push)
    here = os.path.abspath(__file__)
    paths = {'bare': os.path.basename(here),
             'relative': os.path.join(os.path.basename(os.path.dirname(here)), os.path.basename(here)),
             'absolute': here}
    handler.new_config([build_trigger(name, path, TP_LINE, dict(ARGS), [], []) for name, path in paths.items()])
    sys.settrace(handler.trace_call)
    try:
        target(1)
    finally:
        sys.settrace(None)
    print("installed: %s" % paths)
    print("fired: %s" % push.pushed)
    if sorted(push.pushed) != sorted(paths):
        print("WRONG: the tracepoints %s are installed but never fire" % sorted(set(paths) - set(push.pushed)))
        return 1
    print("ok")
    return 0


if __name__ == '__main__':
    sys.exit(main())
