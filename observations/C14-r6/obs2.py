"""
obs2 (unmodified tree): shutdown() called on another thread than start() does not put the hooks back.

sys.settrace only affects the calling thread. TriggerHandler.shutdown() calls sys.settrace(old) on whatever thread
runs shutdown(): the thread that ran start() keeps the agent's trace function, and the thread that runs shutdown()
loses its OWN trace function (it gets the one saved on the start thread).
"""
import faulthandler
import logging
import os
import sys
import threading

faulthandler.dump_traceback_later(120, exit=True)
logging.disable(logging.CRITICAL)
sys.path.insert(0, os.path.dirname(os.path.abspath(__file__)))

from _common import base_config  # noqa: E402
from deep.api import Deep  # noqa: E402
from deep.config import ConfigService  # noqa: E402


def workers_own_trace(frame, event, arg):
    return None


problems = []
agent = Deep(ConfigService(base_config()))
agent.start()  # on the main thread, sys.gettrace() was None
seen = {}


def stopper():
    sys.settrace(workers_own_trace)  # e.g. a profiler / coverage / debugger for this thread
    agent.shutdown()
    seen['worker'] = sys.gettrace()
    sys.settrace(None)


t = threading.Thread(target=stopper)
t.start()
t.join()
main_trace = sys.gettrace()
sys.settrace(None)
if main_trace is not None:
    problems.append("thread that called start(): sys.gettrace() is still %r after shutdown (was None before start)"
                    % (main_trace,))
if seen['worker'] is not workers_own_trace:
    problems.append("thread that called shutdown(): its own trace function was replaced by %r" % (seen['worker'],))
threading.settrace(None)
if problems:
    print("WRONG")
    for p in problems:
        print(" -", p)
    sys.stdout.flush()
    os._exit(1)
print("OK")
os._exit(0)
