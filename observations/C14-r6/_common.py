"""Helpers shared by the obsK.py scripts (not needed by the demos)."""
import socket


def closed_port():
    s = socket.socket()
    s.bind(('127.0.0.1', 0))
    port = s.getsockname()[1]
    s.close()
    return port


def base_config(**extra):
    cfg = {'SERVICE_URL': '127.0.0.1:%d' % closed_port(), 'SERVICE_SECURE': 'False', 'POLL_TIMER': 0.2,
           'APP_ROOT': '/tmp'}
    cfg.update(extra)
    return cfg
