"""
obs5 (unmodified tree): an agent that was shut down cannot be started again when the service has tracepoints for it -
start() fails with a BaseException after the hooks were installed, and they are never put back.

TaskHandler.flush() closes the task handler for good, nothing re-opens it on start(). On the second start() the
initial poll gets an UPDATE, TracepointConfigService hands the listener update to the closed task handler and gets
IllegalStateException - a BaseException, so LongPoll's `except Exception` around the initial poll does not apply and
it leaves Deep.start() after trigger_handler.start(), before `started = True`. shutdown() is then a no-op.
"""
import faulthandler
import logging
import os
import sys
import threading
import uuid
from concurrent import futures

faulthandler.dump_traceback_later(120, exit=True)
logging.disable(logging.CRITICAL)
sys.path.insert(0, os.path.dirname(os.path.abspath(__file__)))

import grpc  # noqa: E402
from deepproto.proto.poll.v1 import poll_pb2_grpc  # noqa: E402
from deepproto.proto.poll.v1.poll_pb2 import PollResponse, ResponseType  # noqa: E402
from deepproto.proto.tracepoint.v1.tracepoint_pb2 import TracePointConfig  # noqa: E402

from _common import base_config  # noqa: E402
from deep.api import Deep  # noqa: E402
from deep.config import ConfigService  # noqa: E402


class Polls(poll_pb2_grpc.PollConfigServicer):
    def __init__(self):
        self.hash = str(uuid.uuid4())

    def poll(self, request, context):
        if request.current_hash == self.hash:
            return PollResponse(ts_nanos=request.ts_nanos, current_hash=self.hash,
                                response_type=ResponseType.NO_CHANGE)
        return PollResponse(ts_nanos=request.ts_nanos, current_hash=self.hash, response_type=ResponseType.UPDATE,
                            response=[TracePointConfig(ID="tp1", path="some_file.py", line_number=12)])


polls = Polls()
server = grpc.server(futures.ThreadPoolExecutor(max_workers=4))
poll_pb2_grpc.add_PollConfigServicer_to_server(polls, server)
port = server.add_insecure_port('127.0.0.1:0')
server.start()

problems = []
agent = Deep(ConfigService(base_config(SERVICE_URL='127.0.0.1:%d' % port, POLL_TIMER=0.3)))
try:
    agent.start()
    agent.shutdown()
    if sys.gettrace() is not None or threading.gettrace() is not None:
        problems.append("first cycle: hooks not restored")
    # the service has a new tracepoint for us in the meantime
    polls.hash = str(uuid.uuid4())
    try:
        agent.start()
    except BaseException as e:
        problems.append("second start() raised %s (%s a subclass of Exception)"
                        % (type(e).__name__, "is" if isinstance(e, Exception) else "NOT"))
    agent.shutdown()
    if sys.gettrace() is not None or threading.gettrace() is not None:
        problems.append("after the second start() + shutdown(): sys.gettrace()=%r threading.gettrace()=%r (both None "
                        "before)" % (sys.gettrace(), threading.gettrace()))
finally:
    sys.settrace(None)
    threading.settrace(None)
    server.stop(0)
if problems:
    print("WRONG")
    for p in problems:
        print(" -", p)
    sys.stdout.flush()
    os._exit(1)
print("OK")
os._exit(0)
