"""
obs3 (unmodified tree): two threads calling start() at the same time both install the hooks.

Deep.start() checks `started` at the top and sets it at the very end, without a lock. Two concurrent calls both pass
the check; the second TriggerHandler.start() saves the agent's own function as the "previous" threading hook (and a
second poll timer replaces the first one, which is never stopped). To force the interleaving the script lets both
threads meet at a barrier in grpc.start(), i.e. after the check and before `started = True`.
"""
import faulthandler
import logging
import os
import sys
import threading

faulthandler.dump_traceback_later(120, exit=True)
logging.disable(logging.CRITICAL)
sys.path.insert(0, os.path.dirname(os.path.abspath(__file__)))

from _common import base_config  # noqa: E402
from deep.api import Deep  # noqa: E402
from deep.config import ConfigService  # noqa: E402

problems = []
agent = Deep(ConfigService(base_config()))
barrier = threading.Barrier(2)
real_grpc_start = agent.grpc.start


def slow_grpc_start():
    try:
        barrier.wait(10)
    except threading.BrokenBarrierError:
        pass
    real_grpc_start()


agent.grpc.start = slow_grpc_start
threads = [threading.Thread(target=agent.start) for _ in range(2)]
for t in threads:
    t.start()
for t in threads:
    t.join()
agent.shutdown()
if threading.gettrace() is not None:
    problems.append("threading.gettrace() after shutdown is %r (was None before start)" % (threading.gettrace(),))
polls = [t for t in threading.enumerate() if t.name == "Tracepoint Long Poll"]
if polls:
    problems.append("%d poll thread(s) still running after shutdown" % len(polls))
threading.settrace(None)
sys.settrace(None)
if problems:
    print("WRONG")
    for p in problems:
        print(" -", p)
    sys.stdout.flush()
    os._exit(1)
print("OK")
os._exit(0)
