"""
obs4 (unmodified tree): a plugin whose shutdown() fails with the agent's own IllegalStateException aborts shutdown().

deep.task.IllegalStateException derives from BaseException, Deep.shutdown() guards each step with `except Exception`.
A plugin that hands a last piece of work to the agent's task handler in its shutdown() (the handler is already flushed
and closed at that point) gets IllegalStateException; it escapes the loop: the plugins after it are not shut down,
shutdown() raises into the application and `started` stays True.
"""
import faulthandler
import logging
import os
import sys
import threading

faulthandler.dump_traceback_later(120, exit=True)
logging.disable(logging.CRITICAL)
sys.path.insert(0, os.path.dirname(os.path.abspath(__file__)))

from _common import base_config  # noqa: E402
from deep.api import Deep  # noqa: E402
from deep.api.plugin import Plugin  # noqa: E402
from deep.config import ConfigService  # noqa: E402


class FlushingPlugin(Plugin):
    def __init__(self, agent):
        super().__init__("FlushingPlugin", agent.config)
        self.agent = agent

    def shutdown(self):
        # "send what we still have"
        self.agent.task_handler.submit_task(lambda: None)


class LastPlugin(Plugin):
    def __init__(self, config):
        super().__init__("LastPlugin", config)
        self.was_shut_down = False

    def shutdown(self):
        self.was_shut_down = True


problems = []
config = ConfigService(base_config())
agent = Deep(config)
agent.start()
last = LastPlugin(config)
config.plugins = list(config.plugins) + [FlushingPlugin(agent), last]
try:
    agent.shutdown()
except BaseException as e:
    problems.append("shutdown() raised %s into the application" % type(e).__name__)
if not last.was_shut_down:
    problems.append("the plugin after the failing one was not shut down")
if agent.started:
    problems.append("agent.started is still True after shutdown()")
sys.settrace(None)
threading.settrace(None)
if problems:
    print("WRONG")
    for p in problems:
        print(" -", p)
    sys.stdout.flush()
    os._exit(1)
print("OK")
os._exit(0)
