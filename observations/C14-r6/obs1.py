"""
obs1 (unmodified tree): a start() that fails after the trace hooks were installed leaves them installed for good.

Deep.start() installs the hooks (trigger_handler.start()) before grpc.start() / poll.start(); `started` is only set at
the end. If one of the later steps raises (here: POLL_TIMER is not a number -> ValueError in LongPoll.start) the hooks
stay, shutdown() is a no-op (`started` is False), and a second start()/shutdown() "restores" the agent's own function.
"""
import faulthandler
import logging
import os
import sys
import threading

faulthandler.dump_traceback_later(120, exit=True)
logging.disable(logging.CRITICAL)
sys.path.insert(0, os.path.dirname(os.path.abspath(__file__)))

from _common import base_config  # noqa: E402
from deep.api import Deep  # noqa: E402
from deep.config import ConfigService  # noqa: E402

problems = []
config = ConfigService(base_config(POLL_TIMER='abc'))
agent = Deep(config)
try:
    agent.start()
    problems.append("start() did not fail?")
except ValueError as e:
    print("start() raised:", repr(e))
agent.shutdown()
if sys.gettrace() is not None or threading.gettrace() is not None:
    problems.append("after the failed start() + shutdown(): sys.gettrace()=%r threading.gettrace()=%r (both were "
                    "None before start)" % (sys.gettrace(), threading.gettrace()))

# the operator fixes the setting and tries again
config.POLL_TIMER = 0.2
agent.start()
agent.shutdown()
if sys.gettrace() is not None or threading.gettrace() is not None:
    problems.append("after a second, successful start() + shutdown(): sys.gettrace()=%r threading.gettrace()=%r"
                    % (sys.gettrace(), threading.gettrace()))
sys.settrace(None)
threading.settrace(None)
if problems:
    print("WRONG")
    for p in problems:
        print(" -", p)
    sys.stdout.flush()
    os._exit(1)
print("OK")
os._exit(0)
