"""
obs6 (unmodified tree): a poll that the service does not answer blocks shutdown() for as long as the service likes.

LongPoll.poll() calls the service without a deadline and RepeatedTimer.stop() joins the poll thread without a timeout.
If a poll is in flight and the service hangs (accepts the call, never answers), shutdown() does not complete: the
trace hooks are restored and the task handler is flushed, but the call does not return and the plugins are not shut
down until the service answers or the connection breaks.
"""
import faulthandler
import logging
import os
import sys
import threading
import time
from concurrent import futures

faulthandler.dump_traceback_later(120, exit=True)
logging.disable(logging.CRITICAL)
sys.path.insert(0, os.path.dirname(os.path.abspath(__file__)))

import grpc  # noqa: E402
from deepproto.proto.poll.v1 import poll_pb2_grpc  # noqa: E402
from deepproto.proto.poll.v1.poll_pb2 import PollResponse, ResponseType  # noqa: E402

from _common import base_config  # noqa: E402
from deep.api import Deep  # noqa: E402
from deep.api.plugin import Plugin  # noqa: E402
from deep.config import ConfigService  # noqa: E402

WAIT = 15  # seconds we give shutdown() to complete


class Polls(poll_pb2_grpc.PollConfigServicer):
    def __init__(self):
        self.calls = 0
        self.hanging = threading.Event()
        self.release = threading.Event()

    def poll(self, request, context):
        self.calls += 1
        if self.calls > 1:
            self.hanging.set()
            self.release.wait(60)
        return PollResponse(ts_nanos=request.ts_nanos, current_hash="h", response_type=ResponseType.NO_CHANGE)


class LastPlugin(Plugin):
    def __init__(self, config):
        super().__init__("LastPlugin", config)
        self.was_shut_down = False

    def shutdown(self):
        self.was_shut_down = True


polls = Polls()
server = grpc.server(futures.ThreadPoolExecutor(max_workers=4))
poll_pb2_grpc.add_PollConfigServicer_to_server(polls, server)
port = server.add_insecure_port('127.0.0.1:0')
server.start()

problems = []
config = ConfigService(base_config(SERVICE_URL='127.0.0.1:%d' % port, POLL_TIMER=0.3))
agent = Deep(config)
agent.start()
last = LastPlugin(config)
config.plugins = list(config.plugins) + [last]
if not polls.hanging.wait(10):
    problems.append("setup: no second poll")
stopper = threading.Thread(target=agent.shutdown, daemon=True)
begin = time.time()
stopper.start()
stopper.join(WAIT)
if stopper.is_alive():
    problems.append("shutdown() has not returned after %d s while a poll is unanswered (plugin shut down: %s, "
                    "agent.started: %s)" % (WAIT, last.was_shut_down, agent.started))
polls.release.set()
stopper.join(10)
print("shutdown() returned %.1f s after it was called (the poll was released after %d s)" % (time.time() - begin, WAIT))
server.stop(0)
sys.settrace(None)
threading.settrace(None)
if problems:
    print("WRONG")
    for p in problems:
        print(" -", p)
    sys.stdout.flush()
    os._exit(1)
print("OK")
os._exit(0)
