"""
Observation 2 (unmodified tree): after os.fork() the TaskHandler of the child accepts work that is never executed.

The agent is typically started once in the parent of a pre-forking server (gunicorn --preload, uwsgi, multiprocessing
with the fork start method) and its TaskHandler has already run something (the tracepoint config update, a snapshot),
so the two pool workers exist. Threads do not survive fork(), but the ThreadPoolExecutor copied into the child still
counts them (len(_threads) == max_workers, idle semaphore > 0) and so never starts new ones: submit_task() in the
child returns a future normally, the task (convert + send of a snapshot) is queued for ever, and flush() "returns
normally" after its 10s per task timeout with the work undone. Nothing is logged, nothing is refused.
"""
import faulthandler
import os
import sys
import time
import warnings

faulthandler.dump_traceback_later(60, exit=True)
warnings.simplefilter("ignore", DeprecationWarning)  # python 3.12 warns about fork() in a threaded process

from deep.task import TaskHandler  # noqa: E402

handler = TaskHandler()
# what happens in the parent before the fork: two tasks have been processed, both workers exist
for f in [handler.submit_task(time.sleep, 0.2), handler.submit_task(time.sleep, 0.2)]:
    f.result(5)

r, w = os.pipe()
pid = os.fork()
if pid == 0:
    os.close(r)
    ran = []
    try:
        futures = [handler.submit_task(ran.append, i) for i in range(3)]  # accepted: no exception
        deadline = time.time() + 3
        while time.time() < deadline and len(ran) < 3:
            time.sleep(0.05)
        msg = "accepted=%d ran=%d" % (len(futures), len(ran))
    except BaseException as e:
        msg = "refused %r" % e
    os.write(w, msg.encode())
    os._exit(0)

os.close(w)
msg = os.read(r, 1000).decode()
os.waitpid(pid, 0)
handler.flush()
if msg.startswith("accepted=3 ran=3") or msg.startswith("refused"):
    print("OK: child: %s" % msg)
    sys.exit(0)
print("DEFECT: in a forked child 3 tasks were accepted by submit_task() but none/not all ran within 3s (%s): the "
      "pool copied by fork has no threads and never starts new ones, the work is dropped silently" % msg)
sys.exit(1)
