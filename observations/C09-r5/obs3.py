"""
Observation 3 (unmodified tree, borderline / by design): flush() gives every task 10 seconds, a slower task is still
running when flush() returns.

The property as stated asks that flush returns "after every previously accepted task has finished - whether those
tasks succeeded or failed", quantified over tasks that are "failing or slow". TaskHandler.flush() calls
future.result(10) and ignores the TimeoutError, so with one 12 second task (e.g. a send to an unresponsive service:
stub.send has no deadline) flush() - and with it Deep.shutdown() - returns after 10s while the conversion/send is
still going on in the worker. Takes about 12s to run.
"""
import faulthandler
import sys
import time

faulthandler.dump_traceback_later(60, exit=True)

from deep.task import TaskHandler  # noqa: E402

finished = []


def slow():
    time.sleep(12)
    finished.append(time.time())


handler = TaskHandler()
future = handler.submit_task(slow)
start = time.time()
handler.flush()
took = time.time() - start
done_when_flush_returned = len(finished)
future.result(10)
if done_when_flush_returned == 0:
    print("DEFECT (borderline): flush() returned after %.1fs while an accepted task was still running "
          "(it finished %.1fs later)" % (took, finished[0] - start - took))
    sys.exit(1)
print("OK: flush waited %.1fs for the slow task" % took)
sys.exit(0)
