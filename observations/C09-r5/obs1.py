"""
Observation 1 (unmodified tree): submit_task() racing with flush() - a task is accepted although the handler is
closed, and flush() does not wait for it.

TaskHandler.submit_task checks `_open` first and registers the future in `_pending` last, without holding a lock;
flush() sets `_open = False` and then copies `_pending`. If flush() runs completely in between (thread A is past
__check_open but has not registered its future yet) then
  * flush() returns at once (nothing pending) although A's submit_task() call started before flush() did, and
  * A's submit_task() returns a future normally (no IllegalStateException) after the handler was closed, and the task
    runs after flush() has returned.
So the task is neither "previously accepted and awaited" nor "refused visibly": Deep.shutdown() can return while a
snapshot of another application thread is still going to be converted and sent.

The interleaving is forced without changing any code: thread A runs under a trace function that parks it on the
`self._pool.submit(...)` line of submit_task.
"""
import faulthandler
import inspect
import sys
import threading
import time

faulthandler.dump_traceback_later(60, exit=True)

from deep.task import TaskHandler  # noqa: E402

lines, first = inspect.getsourcelines(TaskHandler.submit_task)
park_line = next(first + i for i, text in enumerate(lines) if "self._pool.submit(" in text)
code = TaskHandler.submit_task.__code__

parked = threading.Event()
release = threading.Event()


def tracer(frame, event, arg):
    if frame.f_code is not code:
        return None

    def local(frame, event, arg):
        if event == "line" and frame.f_lineno == park_line and not parked.is_set():
            parked.set()
            release.wait(20)
        return local

    return local


handler = TaskHandler()
events = []
outcome = {}


def task():
    events.append(("task ran", time.time()))


def thread_a():
    sys.settrace(tracer)
    try:
        outcome["future"] = handler.submit_task(task)
    except BaseException as e:
        outcome["refused"] = e
    finally:
        sys.settrace(None)


a = threading.Thread(target=thread_a, name="app-thread-A")
a.start()
if not parked.wait(10):
    print("could not force the interleaving")
    sys.exit(2)

handler.flush()  # A is past the open check, but has not registered its future
flush_returned = time.time()
events.append(("flush returned", flush_returned))
release.set()
a.join(20)
if "future" in outcome:
    outcome["future"].result(10)

if "refused" in outcome:
    print("OK: the late submission was refused with %r" % outcome["refused"])
    sys.exit(0)

ran_at = [t for name, t in events if name == "task ran"][0]
if ran_at > flush_returned:
    print("DEFECT: submit_task() (started before flush) returned a future without raising although the handler was "
          "already closed, and flush() returned %.3fs before that task ran: it was neither awaited by flush nor "
          "refused. events=%s" % (ran_at - flush_returned, [name for name, _ in sorted(events, key=lambda e: e[1])]))
    sys.exit(1)
print("OK: flush waited for the task")
sys.exit(0)
