"""
Observation 1 (unmodified tree): a container of capacity 0 counts *rejected* (invalid) keys/values as drops.

With any capacity >= 1 an invalid key/value is rejected without touching `dropped` (the test-suite even asserts
"Invalid values shouldn't be considered for `dropped`"); with capacity 0 the early return in __setitem__ increments
`dropped` before the key/value is validated, so `dropped` counts things that never were attributes.

exit 1 (and a description) when the inconsistency is present.
"""
import logging as std_logging
import sys

from deep.api.attributes import BoundedAttributes

std_logging.getLogger("deep").addHandler(std_logging.NullHandler())
std_logging.getLogger("deep").propagate = False


def drops_for_invalid(capacity):
    attrs = BoundedAttributes(capacity, immutable=False)
    attrs["k"] = {}  # invalid value
    attrs[""] = 1  # invalid key
    attrs[None] = "x"  # invalid key
    attrs["seq"] = [1, "a"]  # invalid (mixed) sequence
    return attrs.dropped, len(attrs)


results = {capacity: drops_for_invalid(capacity) for capacity in (0, 1, 2, None)}
if results[0][0] != 0:
    print("capacity 0: dropped=%d after four invalid set operations (nothing valid was ever offered); "
          "capacity 1/2/None: dropped=%s" % (results[0][0], [results[c][0] for c in (1, 2, None)]))
    sys.exit(1)
print("consistent: %r" % results)
