"""
Observation 2 (unmodified tree): values whose type is a *subclass* of a valid type are treated inconsistently.

A scalar is checked with isinstance() and is stored as it is (the IntEnum member / str subclass instance itself, not a
plain int / str), the elements of a sequence are checked with `type(element) in _VALID_ATTR_VALUE_TYPES`, so the very
same value is rejected (the whole attribute is dropped silently, only a warning is logged) as soon as it is in a list.

exit 1 (and a description) when the inconsistency is present.
"""
import enum
import logging as std_logging
import sys

from deep.api.attributes import BoundedAttributes

std_logging.getLogger("deep").addHandler(std_logging.NullHandler())
std_logging.getLogger("deep").propagate = False


class Level(enum.IntEnum):
    LOW = 1


class Text(str):
    pass


attrs = BoundedAttributes(None, immutable=False)
attrs["level"] = Level.LOW
attrs["levels"] = [Level.LOW]
attrs["text"] = Text("x")
attrs["texts"] = [Text("x")]

problems = []
for scalar, sequence in (("level", "levels"), ("text", "texts")):
    if (scalar in attrs) != (sequence in attrs):
        problems.append("%r stored=%s (as %s) but %r stored=%s" % (
            scalar, scalar in attrs, type(attrs.get(scalar)).__name__, sequence, sequence in attrs))
if problems:
    print("subclass values are valid as scalars but invalid inside a sequence: " + "; ".join(problems))
    sys.exit(1)
print("consistent")
