"""obs2: a watch that cannot be evaluated is delivered as a good result, exactly like a watch whose value is an exception."""
import collections
import os
import sys

from deep.api.resource import Resource
from deep.api.tracepoint.trigger import build_trigger
from deep.config import ConfigService
from deep.processor.trigger_handler import TriggerHandler
from deep.push.push_service import PushService


class CapturePush(PushService):
    def __init__(self):
        super().__init__(None, None)
        self.pushed = []

    def push_snapshot(self, snapshot):
        self.pushed.append(snapshot)


def marker_line():
    with open(__file__) as f:
        for no, text in enumerate(f, 1):
            if text.rstrip().endswith('# TRACEPOINT'):
                return no
    raise RuntimeError('no marker')


def run(triggers, func, *args):
    config = ConfigService({'APP_ROOT': os.path.dirname(os.path.abspath(__file__))})
    config.resource = Resource.get_empty()
    push = CapturePush()
    handler = TriggerHandler(config, push)
    handler.new_config(triggers)
    old = sys.gettrace()
    sys.settrace(handler.trace_call)
    try:
        func(*args)
    finally:
        sys.settrace(old)
    return push.pushed


def target():
    err = ZeroDivisionError('division by zero')
    done = True  # TRACEPOINT
    return err, done


def main():
    trigger = build_trigger('tp', os.path.basename(__file__), marker_line(), {}, ['err', '1/0', 'no_such_name'], [])
    snapshot = run([trigger], target)[0]
    shown = {}
    for w in snapshot.watches:
        var = snapshot.var_lookup[w.result.vid] if w.result is not None else None
        shown[w.expression] = (w.error, (var.type, var.value) if var is not None else None)
    problems = []
    for expression in ['1/0', 'no_such_name']:
        error, result = shown[expression]
        if error is None or result is not None:
            problems.append("watch '%s' cannot be evaluated in the paused frame, but is delivered with error=%s and "
                            "the good result %s" % (expression, error, result))
    if shown['1/0'] == shown['err']:
        problems.append("the failed watch '1/0' and the watch 'err' (a local that really holds a ZeroDivisionError) "
                        "are delivered identically: %s" % (shown['err'],))
    for problem in problems:
        print('WRONG: ' + problem)
    return 1 if problems else 0


if __name__ == '__main__':
    sys.exit(main())
