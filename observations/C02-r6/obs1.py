"""obs1: the tracepoint named by a snapshot does not carry the arguments / line the tracepoint was configured with."""
import collections
import os
import sys

from deep.api.resource import Resource
from deep.api.tracepoint.trigger import build_trigger
from deep.config import ConfigService
from deep.processor.trigger_handler import TriggerHandler
from deep.push.push_service import PushService


class CapturePush(PushService):
    def __init__(self):
        super().__init__(None, None)
        self.pushed = []

    def push_snapshot(self, snapshot):
        self.pushed.append(snapshot)


def marker_line():
    with open(__file__) as f:
        for no, text in enumerate(f, 1):
            if text.rstrip().endswith('# TRACEPOINT'):
                return no
    raise RuntimeError('no marker')


def run(triggers, func, *args):
    config = ConfigService({'APP_ROOT': os.path.dirname(os.path.abspath(__file__))})
    config.resource = Resource.get_empty()
    push = CapturePush()
    handler = TriggerHandler(config, push)
    handler.new_config(triggers)
    old = sys.gettrace()
    sys.settrace(handler.trace_call)
    try:
        func(*args)
    finally:
        sys.settrace(old)
    return push.pushed


def target(a):
    b = a + 1  # TRACEPOINT
    return b


def entry(a, b):
    return a + b


def main():
    name = os.path.basename(__file__)
    line_args = {'condition': 'a == 1', 'fire_count': '3', 'team': 'payments'}
    func_args = {'method_name': 'entry'}
    triggers = [build_trigger('tp-line', name, marker_line(), dict(line_args), ['a'], []),
                build_trigger('tp-func', name, 57, dict(func_args), [], [])]
    pushed = run(triggers, lambda: (target(1), entry(1, 2)))
    by_id = {s.tracepoint.id: s.tracepoint for s in pushed}
    problems = []
    tp = by_id['tp-line']
    if tp.args != line_args:
        problems.append('tp-line was configured with args %s, its snapshot names a tracepoint with args %s'
                        % (line_args, tp.args))
    tp = by_id['tp-func']
    if tp.args != func_args or tp.line_no != 57:
        problems.append('tp-func was configured with line 57 and args %s, its snapshot names a tracepoint with line '
                        '%s and args %s' % (func_args, tp.line_no, tp.args))
    for problem in problems:
        print('WRONG: ' + problem)
    return 1 if problems else 0


if __name__ == '__main__':
    sys.exit(main())
