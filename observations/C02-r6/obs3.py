"""obs3: containers that are subclasses of dict/list (OrderedDict, defaultdict, Counter, list subclasses) or deque have no element count and no children."""
import collections
import os
import sys

from deep.api.resource import Resource
from deep.api.tracepoint.trigger import build_trigger
from deep.config import ConfigService
from deep.processor.trigger_handler import TriggerHandler
from deep.push.push_service import PushService


class CapturePush(PushService):
    def __init__(self):
        super().__init__(None, None)
        self.pushed = []

    def push_snapshot(self, snapshot):
        self.pushed.append(snapshot)


def marker_line():
    with open(__file__) as f:
        for no, text in enumerate(f, 1):
            if text.rstrip().endswith('# TRACEPOINT'):
                return no
    raise RuntimeError('no marker')


def run(triggers, func, *args):
    config = ConfigService({'APP_ROOT': os.path.dirname(os.path.abspath(__file__))})
    config.resource = Resource.get_empty()
    push = CapturePush()
    handler = TriggerHandler(config, push)
    handler.new_config(triggers)
    old = sys.gettrace()
    sys.settrace(handler.trace_call)
    try:
        func(*args)
    finally:
        sys.settrace(old)
    return push.pushed


class Names(list):
    pass


def target():
    plain = {'x': 1, 'y': 2}
    ordered = collections.OrderedDict(x=1, y=2)
    default = collections.defaultdict(int, x=1, y=2)
    counter = collections.Counter(x=1, y=2)
    names = Names(['x', 'y'])
    queue = collections.deque(['x', 'y'])
    done = True  # TRACEPOINT
    return plain, ordered, default, counter, names, queue, done


def main():
    trigger = build_trigger('tp', os.path.basename(__file__), marker_line(), {}, [], [])
    snapshot = run([trigger], target)[0]
    problems = []
    for vid in snapshot.frames[0].variables:
        var = snapshot.var_lookup[vid.vid]
        children = sorted(c.name for c in var.children)
        print("%-8s type=%-12s value=%-45r children=%s" % (vid.name, var.type, var.value, children))
        if vid.name != 'plain' and (var.value != 'Size: 2' or len(children) != 2):
            problems.append("local '%s' is a container with 2 elements; it is delivered with value %r and children %s "
                            "(the plain dict: 'Size: 2', ['x', 'y'])" % (vid.name, var.value, children))
    for problem in problems:
        print('WRONG: ' + problem)
    return 1 if problems else 0


if __name__ == '__main__':
    sys.exit(main())
