"""obs4: APP_ROOT (and the include/exclude prefixes) match by plain string prefix, not by path component."""
import sys

from deep.config import ConfigService


def main():
    config = ConfigService({'APP_ROOT': '/srv/app', 'IN_APP_INCLUDE': [], 'IN_APP_EXCLUDE': []})
    is_app, match = config.is_app_frame('/srv/application_server/vendor/lib.py')
    if is_app:
        short = '/srv/application_server/vendor/lib.py'[len(match):]
        print("WRONG: with APP_ROOT=/srv/app the file /srv/application_server/vendor/lib.py (not under the app root) is "
              "flagged as an app frame, and its shortened path is '%s'" % short)
        return 1
    return 0


if __name__ == '__main__':
    sys.exit(main())
