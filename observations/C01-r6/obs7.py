"""
obs7: a tracepoint that is hit inside concurrent.futures.ThreadPoolExecutor.submit() dead-locks the application.

The agent hands every snapshot to its TaskHandler, which is a ThreadPoolExecutor: PushService.push_snapshot() ->
TaskHandler.submit_task() -> ThreadPoolExecutor.submit(), and that takes the module wide, NON re-entrant
concurrent.futures.thread._global_shutdown_lock. The application's own executor.submit() holds the same lock while it
runs its (traced) python lines, so a tracepoint on one of those lines makes the thread wait for a lock it owns.

Such a tracepoint does not have to be meant for the standard library: tracepoints are matched by the BASE NAME of the
file (TriggerHandler.location_from_event), so a tracepoint for line N of an application file that is called
'thread.py' is also hit at line N of concurrent/futures/thread.py.

The real PushService and TaskHandler are used (the gRPC service is a stub, it is never reached).
"""
import concurrent.futures.thread as cf_thread
import os
import sys
import threading
from concurrent.futures import ThreadPoolExecutor

import _obs_common
from deep.push import PushService
from deep.task import TaskHandler


class NoGrpc:
    channel = None

    @staticmethod
    def metadata():
        return []


def program(trace_function, result):
    if trace_function is not None:
        sys.settrace(trace_function)
    with ThreadPoolExecutor(max_workers=1) as executor:
        result.append(executor.submit(sum, [1, 2, 3]).result())


def run(trace_function):
    result = []
    thread = threading.Thread(target=program, args=(trace_function, result), daemon=True)
    thread.start()
    thread.join(15)
    return "hangs (no result after 15 s)" if thread.is_alive() else "returns %s" % result


def main():
    without = run(None)
    # the line 'f = _base.Future()' of ThreadPoolExecutor.submit, inside 'with self._shutdown_lock, _global_...:'
    with open(cf_thread.__file__) as source:
        line = [n for n, text in enumerate(source, start=1) if text.strip() == "f = _base.Future()"][0]
    config = _obs_common.ConfigService({})
    config.resource = _obs_common.Resource.get_empty()
    config.plugins = []
    push = PushService(NoGrpc(), TaskHandler())
    handler = _obs_common.TriggerHandler(config, push)
    handler.new_config([_obs_common.build_trigger("tp-1", os.path.basename(cf_thread.__file__), line, {}, [], [])])
    with_agent = run(handler.trace_call)
    if with_agent != without:
        print("VIOLATION: executor.submit() without agent: %s; with agent (tracepoint at %s:%d): %s"
              % (without, os.path.basename(cf_thread.__file__), line, with_agent))
        return 1
    print("ok")
    return 0


if __name__ == '__main__':
    code = main()
    sys.stdout.flush()
    os._exit(code)
