"""Shared set-up of the obsK.py scripts: the real TriggerHandler with a collecting push service."""
import faulthandler
import logging
import os

faulthandler.dump_traceback_later(120, exit=True)

from deep.api.resource import Resource  # noqa: E402
from deep.api.tracepoint.trigger import build_trigger  # noqa: E402
from deep.config import ConfigService  # noqa: E402
from deep.processor.trigger_handler import TriggerHandler  # noqa: E402

logging.getLogger("deep").setLevel(logging.CRITICAL)


class CollectingPush:
    def __init__(self):
        self.pushed = []

    def push_snapshot(self, snapshot):
        self.pushed.append(snapshot)


def line_of(path, marker):
    with open(path) as source:
        for number, text in enumerate(source, start=1):
            if text.rstrip().endswith("# " + marker):
                return number
    raise AssertionError("marker %s not found" % marker)


def make_handler(path, marker, args=None, watches=None, plugins=None, push=None):
    config = ConfigService({})
    config.resource = Resource.get_empty()
    config.plugins = plugins or []
    push = push or CollectingPush()
    handler = TriggerHandler(config, push)
    args = dict(args or {}, fire_count='-1', fire_period='0')
    handler.new_config([build_trigger("tp-1", os.path.basename(path), line_of(path, marker), args, watches or [], [])])
    return handler, push, config
