"""
obs4: after a snapshot (or a watch / condition / log expression) in a function, 'del name' / rebinding a local of that
function does not release the object any more until the function returns (python 3.12 and older).

Everything that looks at frame.f_locals (FrameCollector, TriggerContext.evaluate_expression, the log action) makes
CPython create the locals dictionary of the frame, which is cached ON the frame and holds a reference to every local.
CPython only refreshes it when f_locals is read again. The agent reads it at the tracepoint and never again, so the
dictionary keeps the values of that moment alive although the application has dropped them: finalizers (__del__,
weakref callbacks, closing of files and sockets, releasing of locks or pool slots) run later than without the agent,
in a different order relative to the statements of the function. A tracer that does not touch f_locals, or touches it
on every event, does not have this effect (checked below with a trivial trace function).
"""
import gc
import sys

from _obs_common import make_handler

events = []


class Resource:
    def __init__(self, name):
        self.name = name

    def __del__(self):
        events.append("released " + self.name)


def work(resource):
    name = resource.name  # SNAPSHOT
    del resource
    events.append("work continues without " + name)
    return name


def program():
    events.clear()
    work(Resource("r1"))
    events.append("work returned")
    return list(events)


def main():
    gc.disable()
    without = program()

    def trivial(frame, event, arg):
        return trivial

    sys.settrace(trivial)
    try:
        with_trivial_tracer = program()
    finally:
        sys.settrace(None)
    handler, push, _ = make_handler(__file__, "SNAPSHOT")
    sys.settrace(handler.trace_call)
    try:
        with_agent = program()
    finally:
        sys.settrace(None)
    if with_trivial_tracer != without:
        print("unexpected: a trivial trace function changes the order as well: %s" % with_trivial_tracer)
    if len(push.pushed) != 1:
        print("the tracepoint did not fire")
        return 2
    if with_agent != without:
        print("VIOLATION: order of events in the application\n  without agent: %s\n  with agent   : %s"
              % (without, with_agent))
        return 1
    print("ok")
    return 0


if __name__ == '__main__':
    sys.exit(main())
