"""
obs6: a snapshot taken while the application holds a (non re-entrant) lock dead-locks the application, when a value in
the frame needs that lock to describe itself.

The variable processor calls str() on every value it records (variable_to_string). A class that protects its state
with a threading.Lock and takes it in __str__/__repr__ - a common pattern - is fine on its own: nobody prints the
object while holding the lock. A tracepoint on a line INSIDE the 'with self._lock:' block makes the agent do exactly
that, in the thread that owns the lock. The thread blocks forever inside the trace function.

The program runs in a thread; it finishes instantly without the agent, and never with it (checked with a time-out).
"""
import sys
import threading

from _obs_common import make_handler


class Account:
    def __init__(self):
        self._lock = threading.Lock()
        self.balance = 0

    def __str__(self):
        with self._lock:
            return "Account(balance=%d)" % self.balance

    def deposit(self, amount):
        with self._lock:
            self.balance += amount  # LOCKED
        return self.balance


def program(trace_function, result):
    if trace_function is not None:
        sys.settrace(trace_function)
    account = Account()
    result.append(account.deposit(5))


def run(trace_function):
    result = []
    thread = threading.Thread(target=program, args=(trace_function, result), daemon=True)
    thread.start()
    thread.join(10)
    return "hangs (no result after 10 s)" if thread.is_alive() else "returns %s" % result


def main():
    without = run(None)
    handler, push, _ = make_handler(__file__, "LOCKED")
    with_agent = run(handler.trace_call)
    if with_agent != without:
        print("VIOLATION: deposit() without agent: %s; with agent: %s" % (without, with_agent))
        return 1
    print("ok")
    return 0


if __name__ == '__main__':
    code = main()
    sys.stdout.flush()
    import os
    os._exit(code)
