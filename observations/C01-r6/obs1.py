"""
obs1: near the recursion limit the agent raises a RecursionError of its own into the application, and tracing is
switched off for the thread.

The trace function needs stack frames of its own (trace_call -> __trace_call -> location_from_event -> basename, the
TriggerContext, uuid4 ...). When the application is a few frames below the recursion limit these raise RecursionError
inside the agent; the handler in TriggerHandler.trace_call catches it, but then calls logging.exception() which needs
even more frames and raises RecursionError again, out of the except block. Python raises that in the application (at
a 'call' event, i.e. a few frames EARLIER than the application would have hit the limit on its own) and removes the
trace function of the thread.

No tracepoint has to be hit: one tracepoint anywhere (so that the handler is active) is enough.
"""
import sys

from _obs_common import make_handler


def depth(n):
    try:
        return depth(n + 1)
    except RecursionError:
        return n


def unrelated():
    return 1  # ELSEWHERE


def main():
    without = depth(0)
    handler, push, _ = make_handler(__file__, "ELSEWHERE")
    sys.settrace(handler.trace_call)
    try:
        with_agent = depth(0)
        still_tracing = sys.gettrace() is not None
    finally:
        sys.settrace(None)
    problems = []
    if with_agent != without:
        problems.append("deepest call reached without agent: %d, with agent: %d" % (without, with_agent))
    if not still_tracing:
        problems.append("sys.gettrace() is None afterwards: tracing was switched off for the thread")
    if problems:
        print("VIOLATION: " + "; ".join(problems))
        return 1
    print("ok")
    return 0


if __name__ == '__main__':
    sys.exit(main())
