"""
obs5: a span tracepoint handled by the shipped OTel plugin draws from the application's global random generator.

OTelPlugin.create_span() starts a span with the OpenTelemetry SDK, whose default id generator uses
random.getrandbits() of the module level generator (the one random.seed() seeds). An application that seeds the
generator (simulations, tests, sampling) gets different numbers after the tracepoint than without the agent.
(EventSnapshot avoids exactly this for its own ids with random.SystemRandom, the plugin does not.)
"""
import random
import sys

from opentelemetry import trace
from opentelemetry.sdk.trace import TracerProvider

from _obs_common import make_handler
from deep.api.plugin.otel import OTelPlugin


def work(n):
    k = n + 1  # INSIDE
    return k


def program():
    random.seed(7)
    work(1)
    return random.random()


def main():
    trace.set_tracer_provider(TracerProvider())
    without = program()
    handler, push, config = make_handler(__file__, "INSIDE",
                                         args={'span': 'method', 'method_name': 'work', 'snapshot': 'no_collect'})
    config.plugins = [OTelPlugin(config=config)]
    sys.settrace(handler.trace_call)
    try:
        with_agent = program()
    finally:
        sys.settrace(None)
    if with_agent != without:
        print("VIOLATION: random.random() after random.seed(7) and one call of the traced function\n"
              "  without agent: %r\n  with agent   : %r" % (without, with_agent))
        return 1
    print("ok")
    return 0


if __name__ == '__main__':
    sys.exit(main())
