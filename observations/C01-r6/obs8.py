"""
obs8: an exception that a signal handler raises for the application (KeyboardInterrupt on Ctrl-C, a time-out
implemented with signal.alarm/setitimer) is swallowed when the signal arrives while the agent handles a trace event.

Python runs signal handlers in the main thread between two byte codes - also between two byte codes of the agent's
trace function. The exception the handler raises then surfaces inside the agent, where every layer catches
BaseException (TriggerHandler.trace_call/__trace_call, TriggerContext.__exit__, the variable processor ...), logs it
and carries on. The application never sees it: the time-out does not fire, Ctrl-C is ignored.

The program below guards a loop with an interval timer whose handler raises TimedOut. Without the agent the loop is
always interrupted. With a snapshot tracepoint inside the loop most of the run time is spent in the agent, so that is
where the signal usually lands.
"""
import signal
import sys
import time

from _obs_common import make_handler


class TimedOut(Exception):
    pass


def on_alarm(signum, frame):
    raise TimedOut()


def busy(limit):
    data = [[str(i * j) for i in range(10)] for j in range(10)]
    count = 0
    deadline = time.monotonic() + limit
    while time.monotonic() < deadline:
        count += 1  # LOOP
    return data and count


def program():
    """Run a loop of at most 1.5 s under a time-out of 0.2 s; tell how it ended."""
    signal.signal(signal.SIGALRM, on_alarm)
    signal.setitimer(signal.ITIMER_REAL, 0.2)
    try:
        busy(1.5)
        return "ran to the end, the time-out never fired"
    except TimedOut:
        return "interrupted by the time-out"
    finally:
        signal.setitimer(signal.ITIMER_REAL, 0)


def main():
    without = [program() for _ in range(3)]
    handler, push, _ = make_handler(__file__, "LOOP")
    with_agent = []
    for _ in range(3):
        sys.settrace(handler.trace_call)
        try:
            with_agent.append(program())
        finally:
            sys.settrace(None)
    if with_agent != without:
        print("VIOLATION: three runs of the guarded loop\n  without agent: %s\n  with agent   : %s (%d snapshots)"
              % (without, with_agent, len(push.pushed)))
        return 1
    print("ok")
    return 0


if __name__ == '__main__':
    sys.exit(main())
