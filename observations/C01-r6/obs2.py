"""
obs2: a watch (or condition / log expression) that re-raises an exception OWNED BY THE APPLICATION strips that
exception of its traceback.

TriggerContext.evaluate_expression() returns 'e.with_traceback(None)' for whatever the expression raised. That is fine
for an exception that was created by the evaluation, but 'future.result()', 'task.exception()'-style accessors, cached
errors ('raise self._error') ... raise an exception object that the application keeps. with_traceback(None) modifies
that object in place: the frames of the place where it was originally raised are gone when the application looks at it
(or logs it) later.

'fut.result()' on a finished future is a side-effect-free expression.
"""
import sys
import traceback
from concurrent.futures import Future

from _obs_common import make_handler


def worker():
    raise ValueError("boom")


def run_job():
    future = Future()
    try:
        worker()
    except ValueError as e:
        future.set_exception(e)
    return future


def report(future):
    marker = 1  # WATCHED
    try:
        future.result()
    except ValueError as e:
        return [entry.name for entry in traceback.extract_tb(e.__traceback__)]


def main():
    without = report(run_job())
    handler, push, _ = make_handler(__file__, "WATCHED", watches=['future.result()'])
    future = run_job()
    sys.settrace(handler.trace_call)
    try:
        with_agent = report(future)
    finally:
        sys.settrace(None)
    if len(push.pushed) != 1:
        print("the tracepoint did not fire")
        return 2
    if with_agent != without:
        print("VIOLATION: frames in the traceback the application reports\n  without agent: %s\n  with agent   : %s"
              % (without, with_agent))
        return 1
    print("ok")
    return 0


if __name__ == '__main__':
    sys.exit(main())
