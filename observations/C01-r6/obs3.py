"""
obs3: starting the agent reconfigures the ROOT logger of the application.

deep.start() calls deep.logging.init(), which loads src/deep/logging/logging.conf with logging.config.fileConfig().
That file does not only configure the 'deep' logger, it also has a [logger_root] section: level=DEBUG with a
StreamHandler on sys.stdout. So with the agent attached every debug()/info() of the application (and of every library)
that used to be dropped is printed to stdout, and warnings that went to stderr unformatted now go to stdout in the
agent's format.

(deep.logging.init is called directly: deep.start() would also try to connect to the service.)
"""
import subprocess
import sys

PROGRAM = '''
import logging, sys
if sys.argv[1] == "agent":
    import deep.logging
    from deep.config import ConfigService
    deep.logging.init(ConfigService({}))
log = logging.getLogger("app")
log.debug("debug message of the application")
log.warning("warning of the application")
print("root level", logging.getLogger().level, "root handlers", len(logging.getLogger().handlers))
'''


def run(mode):
    done = subprocess.run([sys.executable, "-c", PROGRAM, mode], capture_output=True, text=True, timeout=60)
    return done.stdout, done.stderr


def main():
    without = run("plain")
    with_agent = run("agent")
    if without != with_agent:
        print("VIOLATION: output of the application")
        print("  without agent: stdout=%r stderr=%r" % without)
        print("  with agent   : stdout=%r stderr=%r" % with_agent)
        return 1
    print("ok")
    return 0


if __name__ == '__main__':
    sys.exit(main())
