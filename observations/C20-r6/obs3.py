"""
Observation 3 (unmodified tree): load_plugins() builds the list with 'DEEP_PLUGINS + custom', outside any guard. When
the PLUGINS setting is any sequence that is not a list (a tuple is the natural way to write a constant setting) this
raises TypeError, Deep.start() fails, and the agent does not start - although every configured plugin is fine.

Run: cd /tmp/seed6_C20 && PYTHONPATH=/tmp/seed6_C20/src:/tmp/seed6_C20/tests /venv/bin/python /tmp/seed6_C20_out/obs3.py
Exit 1 and a description when the defect is present.
"""
import faulthandler
import logging as pylogging
import sys

faulthandler.dump_traceback_later(120, exit=True)

from deep.api import Deep  # noqa: E402
from deep.api.plugin import Plugin  # noqa: E402
from deep.config import ConfigService  # noqa: E402

pylogging.disable(pylogging.CRITICAL)


class FinePlugin(Plugin):
    pass


deep = Deep(ConfigService({'PLUGINS': ('%s.FinePlugin' % __name__,), 'SERVICE_URL': '127.0.0.1:1',
                           'SERVICE_SECURE': 'False', 'POLL_TIMER': 3600, 'NO_TRACE': True}))
try:
    deep.start()
except BaseException as e:
    print("DEFECT (unmodified tree): PLUGINS given as a tuple: Deep.start() raised %r, started=%s" % (e, deep.started))
    sys.exit(1)
names = [plugin.name for plugin in deep.config.plugins]
deep.shutdown()
if 'FinePlugin' not in names:
    print("DEFECT: plugin not loaded: %s" % names)
    sys.exit(1)
print("not reproduced")
sys.exit(0)
