"""
Observation 1 (unmodified tree): a plugin callback that fails with an exception that is not derived from Exception
(asyncio.CancelledError / concurrent.futures.CancelledError are BaseException since python 3.8 - e.g. a plugin that
waits for a future which gets cancelled) is not isolated: the guards around the plugin callbacks are 'except Exception'.

 a) decorate() raises it     -> the whole snapshot is lost (not only the decoration of that plugin)
 b) the constructor raises it -> load_plugins() raises, so Deep.start() fails: the agent does not start
 c) resource() raises it      -> Deep.start() raises, the agent does not start
 d) shutdown() raises it      -> Deep.shutdown() raises, the plugins after it are not shut down, 'started' stays True

Run: cd /tmp/seed6_C20 && PYTHONPATH=/tmp/seed6_C20/src:/tmp/seed6_C20/tests /venv/bin/python /tmp/seed6_C20_out/obs1.py
Exit 1 and a description when the defect is present.
"""
import asyncio
import faulthandler
import logging as pylogging
import os
import sys

faulthandler.dump_traceback_later(120, exit=True)

from deep.api import Deep  # noqa: E402
from deep.api.attributes import BoundedAttributes  # noqa: E402
from deep.api.plugin import SnapshotDecorator, ResourceProvider, Plugin, load_plugins  # noqa: E402
from deep.api.resource import Resource  # noqa: E402
from deep.api.tracepoint.trigger import LineLocation, Location, LocationAction, Trigger  # noqa: E402
from deep.config import ConfigService  # noqa: E402
from deep.processor.trigger_handler import TriggerHandler  # noqa: E402
from deep.push.push_service import PushService  # noqa: E402

pylogging.disable(pylogging.CRITICAL)


class CancelledDecorator(SnapshotDecorator):
    def decorate(self, snapshot_id, context):
        raise asyncio.CancelledError()


class GoodDecorator(SnapshotDecorator):
    def decorate(self, snapshot_id, context):
        return BoundedAttributes(attributes={'good': 'yes'})


class CancelledConstructor(Plugin):
    def __init__(self, config=None):
        super().__init__(config=config)
        raise asyncio.CancelledError()


class CancelledResource(ResourceProvider):
    def resource(self):
        raise asyncio.CancelledError()


class CancelledShutdown(Plugin):
    def order(self):
        return 50

    def shutdown(self):
        raise asyncio.CancelledError()


class RecordingShutdown(Plugin):
    down = False

    def order(self):
        return 60

    def shutdown(self):
        RecordingShutdown.down = True


class CollectingPush(PushService):
    def __init__(self):
        super().__init__(None, None)
        self.pushed = []

    def push_snapshot(self, snapshot):
        self.pushed.append(snapshot)


def target(x):
    y = x + 1  # TRACEPOINT
    return y


with open(__file__) as source:
    LINE = [no + 1 for no, text in enumerate(source.read().splitlines()) if text.endswith('# TRACEPOINT')][0]

problems = []

# a) decorate
config = ConfigService({})
config.resource = Resource.get_empty()
config.plugins = [CancelledDecorator(), GoodDecorator()]
push = CollectingPush()
handler = TriggerHandler(config, push)
location = LineLocation(os.path.basename(__file__), LINE, Location.Position.START)
handler.new_config([Trigger(location, [LocationAction('tp-1', None, {}, LocationAction.ActionType.Snapshot)])])
sys.settrace(handler.trace_call)
try:
    target(1)
finally:
    sys.settrace(None)
if len(push.pushed) != 1 or push.pushed[0].attributes.get('good') != 'yes':
    problems.append("a) decorate() raised asyncio.CancelledError: %d snapshots delivered (expected 1, with the "
                    "decoration of the other plugin)" % len(push.pushed))

# b) constructor
try:
    names = [p.name for p in load_plugins(ConfigService({}), ['%s.CancelledConstructor' % __name__,
                                                             '%s.GoodDecorator' % __name__])]
    if 'GoodDecorator' not in names:
        problems.append("b) the other plugins were not loaded: %s" % names)
except BaseException as e:
    problems.append("b) the constructor of one plugin raised asyncio.CancelledError: load_plugins() raised %r, "
                    "no plugin is loaded and Deep.start() fails" % e)

# c) resource, with the real Deep.start()
deep = Deep(ConfigService({'PLUGINS': ['%s.CancelledResource' % __name__], 'SERVICE_URL': '127.0.0.1:1',
                           'SERVICE_SECURE': 'False', 'POLL_TIMER': 3600, 'NO_TRACE': True}))
try:
    deep.start()
    if not deep.started:
        problems.append("c) agent is not started")
except BaseException as e:
    problems.append("c) resource() of one plugin raised asyncio.CancelledError: Deep.start() raised %r, "
                    "started=%s" % (e, deep.started))
finally:
    try:
        deep.shutdown()
    except BaseException:
        pass

# d) shutdown, with the real Deep.start() / Deep.shutdown()
deep = Deep(ConfigService({'PLUGINS': ['%s.CancelledShutdown' % __name__, '%s.RecordingShutdown' % __name__],
                           'SERVICE_URL': '127.0.0.1:1', 'SERVICE_SECURE': 'False', 'POLL_TIMER': 3600,
                           'NO_TRACE': True}))
deep.start()
try:
    deep.shutdown()
    if not RecordingShutdown.down:
        problems.append("d) the plugin after the failing one was not shut down")
except BaseException as e:
    problems.append("d) shutdown() of one plugin raised asyncio.CancelledError: Deep.shutdown() raised %r, the next "
                    "plugin was shut down: %s, started=%s" % (e, RecordingShutdown.down, deep.started))

if problems:
    print("DEFECT (unmodified tree):")
    for problem in problems:
        print("  - " + problem)
    sys.exit(1)
print("not reproduced")
sys.exit(0)
