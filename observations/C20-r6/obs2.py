"""
Observation 2 (unmodified tree): in SpanActionContext._process_action only create_span() is guarded; the span object a
plugin returns is then tested with 'if span:' OUTSIDE the try. That evaluates plugin code (__bool__/__len__ of the
span). If it raises, the exception leaves _process_action: the SpanResult is never attached, so the spans that OTHER
span processors already created for this hit are never closed (and the processors after the faulty one never run).

Run: cd /tmp/seed6_C20 && PYTHONPATH=/tmp/seed6_C20/src:/tmp/seed6_C20/tests /venv/bin/python /tmp/seed6_C20_out/obs2.py
Exit 1 and a description when the defect is present.
"""
import faulthandler
import logging as pylogging
import os
import sys

faulthandler.dump_traceback_later(120, exit=True)

from deep.api.plugin.span import SpanProcessor, Span  # noqa: E402
from deep.api.resource import Resource  # noqa: E402
from deep.api.tracepoint.trigger import FunctionLocation, Location, LocationAction, Trigger  # noqa: E402
from deep.config import ConfigService  # noqa: E402
from deep.processor.trigger_handler import TriggerHandler  # noqa: E402
from deep.push.push_service import PushService  # noqa: E402

pylogging.disable(pylogging.CRITICAL)


class RecordingSpan(Span):
    name = trace_id = span_id = 'x'

    def __init__(self, faulty):
        self.faulty = faulty
        self.closed = False

    def add_attribute(self, key, value):
        pass

    def add_event(self, name, attributes=None):
        pass

    def close(self):
        self.closed = True

    def __len__(self):
        # e.g. the number of events on the span, asked from a backend that is gone
        if self.faulty:
            raise RuntimeError("span backend is gone")
        return 1


class Processor(SpanProcessor):
    def __init__(self, faulty=False):
        super().__init__()
        self.faulty = faulty
        self.spans = []

    def create_span(self, name, context_id, tracepoint_id):
        span = RecordingSpan(self.faulty)
        self.spans.append(span)
        return span

    def current_span(self):
        return None


def target(x):
    y = x + 1
    return y


def run(faulty):
    first, second, third = Processor(), Processor(faulty), Processor()
    config = ConfigService({})
    config.resource = Resource.get_empty()
    config.plugins = [first, second, third]
    handler = TriggerHandler(config, PushService(None, None))
    location = FunctionLocation(os.path.basename(__file__), 'target', Location.Position.START)
    handler.new_config(
        [Trigger(location, [LocationAction('tp-1', None, {}, LocationAction.ActionType.Span).with_location(location)])])
    sys.settrace(handler.trace_call)
    try:
        target(1)
    finally:
        sys.settrace(None)
    return first, second, third


problems = []
first, second, third = run(False)
if [len(p.spans) for p in (first, second, third)] != [1, 1, 1] or not all(p.spans[0].closed for p in (first, third)):
    print("setup problem: spans are not created/closed in the healthy case")
    sys.exit(2)

first, second, third = run(True)
if len(first.spans) != 1 or not first.spans[0].closed:
    problems.append("the span of the first (healthy) processor was created but never closed: %s" % [
        (len(p.spans), [s.closed for s in p.spans]) for p in (first, second, third)])
if len(third.spans) != 1:
    problems.append("the third (healthy) processor was not asked to create its span")

if problems:
    print("DEFECT (unmodified tree): a span whose truth value cannot be determined was returned by the second processor")
    for problem in problems:
        print("  - " + problem)
    sys.exit(1)
print("not reproduced")
sys.exit(0)
