"""
Observation 1 (unmodified tree): flush() gives up on a task after 10 seconds.

C09 says flush returns after every previously accepted task has finished, "any subset of them failing or slow".
TaskHandler.flush() awaits each future with future.result(10) and swallows the TimeoutError, so an upload that takes
longer than 10 s (a stalled connection: stub.send() has no deadline of its own) is still running when flush() - and
with it Deep.shutdown() - returns normally.
"""
import faulthandler
import sys
import threading
import time

faulthandler.dump_traceback_later(120, exit=True)

from deep.task import TaskHandler  # noqa: E402

finished = threading.Event()


def slow_upload():
    time.sleep(12)
    finished.set()


handler = TaskHandler()
handler.submit_task(slow_upload)
begin = time.monotonic()
handler.flush()
took = time.monotonic() - begin
faulthandler.cancel_dump_traceback_later()
if not finished.is_set():
    print("flush() returned normally after %.1fs although the accepted task was still running" % took)
    sys.exit(1)
print("ok: flush() returned after the task finished (%.1fs)" % took)
