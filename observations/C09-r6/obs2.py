"""
Observation 2 (unmodified tree): after os.fork() the child never delivers anything, silently.

The TaskHandler's ThreadPoolExecutor is created in the parent. Once both of its workers exist (two uploads ran in
parallel once), a forked child (gunicorn/uwsgi pre-fork workers, multiprocessing 'fork') inherits an executor that
believes it has two idle worker threads - which do not exist in the child. submit_task() accepts every snapshot, nothing
ever runs, and flush() waits 10 s per snapshot and then returns normally: accepted work is dropped without any message.
"""
import faulthandler
import os
import sys
import threading
import time

faulthandler.dump_traceback_later(120, exit=True)

from deep.push import PushService  # noqa: E402
from deep.task import TaskHandler  # noqa: E402
from utils import mock_snapshot  # noqa: E402


class FakeGrpc:
    def __init__(self):
        self.sent = []
        self.channel = self
        self.both = threading.Barrier(2)

    def unary_unary(self, *_a, **_k):
        return self._send

    def _send(self, request, **_k):
        if self.both is not None:
            self.both.wait(10)  # the first two uploads overlap, so the pool starts both of its workers
        self.sent.append(request.ID)

    @staticmethod
    def metadata():
        return []


grpc = FakeGrpc()
handler = TaskHandler()
push = PushService(grpc, handler)
push.push_snapshot(mock_snapshot())
push.push_snapshot(mock_snapshot())
while len(grpc.sent) < 2:
    time.sleep(0.01)
grpc.both = None
time.sleep(0.2)  # both workers are idle again

r, w = os.pipe()
pid = os.fork()
if pid == 0:
    # the forked worker process: the application continues, a tracepoint is hit
    os.close(r)
    before = len(grpc.sent)
    push.push_snapshot(mock_snapshot())  # accepted without complaint
    begin = time.monotonic()
    handler.flush()
    took = time.monotonic() - begin
    os.write(w, ("%d %.1f" % (len(grpc.sent) - before, took)).encode())
    os._exit(0)
os.close(w)
data = os.read(r, 100).decode()
os.waitpid(pid, 0)
faulthandler.cancel_dump_traceback_later()
sent, took = data.split()
if int(sent) != 1:
    print("in the forked child: snapshot accepted by push_snapshot(), flush() returned normally after %ss, "
          "uploads performed: %s (expected 1)" % (took, sent))
    sys.exit(1)
print("ok: the child delivered its snapshot")
