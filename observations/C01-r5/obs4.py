"""
obs4 - unmodified tree: a method_capture / line_capture snapshot keeps the application's values alive until the
method (line) has finished, so finalizers of the application run later than without the agent.

For STAGE=method_capture the snapshot is collected at the 'call' event and sent at the 'return' event. Between the two
the pending callback (DeferredSnapshotActionCallback -> SnapshotActionContext -> VariableCacheProvider.__held, and the
TriggerContext with the frame) holds a reference to every value that was collected. An application that relies on
reference counting (del x / rebinding a name closes a resource right away) sees its finalizers run at the end of the
function instead.

Exit 0: same order of events with and without the agent.  Exit 1: order changed (defect present).
"""
import faulthandler
import os
import sys

faulthandler.dump_traceback_later(120, exit=True)

from deep.api.resource import Resource  # noqa: E402
from deep.api.tracepoint.constants import STAGE, METHOD_CAPTURE  # noqa: E402
from deep.api.tracepoint.trigger import FunctionLocation, Location, LocationAction, Trigger  # noqa: E402
from deep.config import ConfigService  # noqa: E402
from deep.processor.trigger_handler import TriggerHandler  # noqa: E402
from deep.push.push_service import PushService  # noqa: E402


class CollectingPush(PushService):
    def __init__(self):
        super().__init__(None, None)
        self.pushed = []

    def push_snapshot(self, snapshot):
        self.pushed.append(snapshot)


class Config(ConfigService):
    @property
    def resource(self):
        return Resource.get_empty()


# ---------------------------------------------------------------- the host program
class Connection:
    def __init__(self, name, journal):
        self.name = name
        self.journal = journal

    def __del__(self):
        self.journal.append("connection %s closed" % self.name)


def transfer(connection, journal):
    journal.append("using %s" % connection.name)
    del connection  # hand the connection back before the slow part
    journal.append("slow part runs without a connection")
    return "done"


def host_program():
    journal = []
    result = transfer(Connection("c1", journal), journal)
    journal.append("transfer returned %s" % result)
    return journal


def main():
    expected = host_program()

    push = CollectingPush()
    handler = TriggerHandler(Config({}), push)
    location = FunctionLocation(os.path.basename(__file__), "transfer", Location.Position.START)
    handler.new_config([Trigger(location, [
        LocationAction("tp-1", None, {STAGE: METHOD_CAPTURE}, LocationAction.ActionType.Snapshot)])])
    sys.settrace(handler.trace_call)
    try:
        actual = host_program()
    finally:
        sys.settrace(None)

    print("without agent:", expected)
    print("with agent   :", actual, "(%d snapshot)" % len(push.pushed))
    if expected != actual:
        print("DEFECT: the agent kept the application's object alive, its finalizer ran at another point")
        return 1
    print("OK: same order of events")
    return 0


if __name__ == '__main__':
    sys.exit(main())
