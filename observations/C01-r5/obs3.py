"""
obs3 - unmodified tree: starting the agent reconfigures the ROOT logger of the application.

deep.start() calls deep.logging.init(cfg), which loads src/deep/logging/logging.conf with logging.config.fileConfig().
That file does not only configure the 'deep' logger, it has a [logger_root] section (level=DEBUG, a StreamHandler on
sys.stdout). fileConfig() removes the handlers the application installed on the root logger and sets its level, so
from then on the application's own log records go somewhere else, and records the application had filtered out
(INFO/DEBUG, also those of third party libraries) are printed to stdout.

(This script calls deep.logging.init() directly - the call deep.start() makes - because deep.start() would also start
the gRPC/poll threads.)

Exit 0: the host's logging is untouched.  Exit 1: it was changed (defect present).
"""
import contextlib
import io
import logging
import sys

import deep.logging
from deep.config import ConfigService


def host_logging_setup():
    """What an application does at start up: warnings and above go to its own log stream."""
    stream = io.StringIO()
    root = logging.getLogger()
    for handler in list(root.handlers):
        root.removeHandler(handler)
    handler = logging.StreamHandler(stream)
    handler.setFormatter(logging.Formatter("HOST %(levelname)s %(message)s"))
    root.addHandler(handler)
    root.setLevel(logging.WARNING)
    return stream


def host_work():
    log = logging.getLogger("shop.orders")
    log.debug("loading order 17")
    log.info("order 17 has 3 items")
    log.warning("order 17 is late")
    return 17


def run(attach_agent):
    stream = host_logging_setup()
    stdout = io.StringIO()
    with contextlib.redirect_stdout(stdout):
        real_stdout, sys.stdout = sys.stdout, stdout  # fileConfig evaluates 'sys.stdout' when it is called
        try:
            if attach_agent:
                deep.logging.init(ConfigService({}))
            result = host_work()
        finally:
            sys.stdout = real_stdout
    root = logging.getLogger()
    return result, stream.getvalue(), stdout.getvalue(), logging.getLevelName(root.level), len(root.handlers)


def strip_times(text):
    return [line.split(" - ", 1)[-1] for line in text.splitlines()]


def main():
    expected = run(False)
    actual = run(True)
    for name, (result, own, out, level, handlers) in (("without agent", expected), ("with agent", actual)):
        print("%s: result=%s root level=%s" % (name, result, level))
        print("    host log stream: %r" % own)
        print("    stdout         : %r" % strip_times(out))
    if (expected[0], expected[1], strip_times(expected[2]), expected[3]) != \
            (actual[0], actual[1], strip_times(actual[2]), actual[3]):
        print("DEFECT: starting the agent replaced the handlers and the level of the application's root logger")
        return 1
    print("OK: logging of the host is unchanged")
    return 0


if __name__ == '__main__':
    sys.exit(main())
