"""
obs1 - unmodified tree: a host program that recurses close to the recursion limit gets a RecursionError from the agent.

The trace function of the agent runs on top of the application's stack and needs several python frames of its own
(trace_call -> __trace_call -> location_from_event -> os.path.basename ..., TriggerContext() -> uuid.uuid4() ...). When
the application is within a few frames of sys.getrecursionlimit() - a depth it handles fine on its own - the
RecursionError is raised inside the agent. trace_call catches it, but its handler (logging.exception) needs even more
frames, so a second RecursionError leaves trace_call: python raises it in the application and removes the trace function
of the thread. No tracepoint has to be configured for this.

Exit 0: same results with and without the agent.  Exit 1: the agent changed the result of the host (defect present).
"""
import faulthandler
import sys

faulthandler.dump_traceback_later(120, exit=True)

from deep.config import ConfigService  # noqa: E402
from deep.processor.trigger_handler import TriggerHandler  # noqa: E402
from deep.push.push_service import PushService  # noqa: E402


def depth_of(n):
    if n == 0:
        return 0
    return 1 + depth_of(n - 1)


def host_program(depth):
    try:
        return depth_of(depth)
    except RecursionError:
        return "RecursionError"


def main():
    # the deepest recursion this program can do on its own from here
    deepest = None
    for depth in range(sys.getrecursionlimit() - 100, sys.getrecursionlimit() + 1):
        if host_program(depth) == "RecursionError":
            break
        deepest = depth
    print("without the agent depth_of(%d) works (recursion limit %d)" % (deepest, sys.getrecursionlimit()))

    handler = TriggerHandler(ConfigService({}), PushService(None, None))  # no tracepoints at all
    wrong = []
    for depth in range(deepest - 10, deepest + 1):
        expected = host_program(depth)
        sys.settrace(handler.trace_call)
        try:
            actual = host_program(depth)
            removed = sys.gettrace() is None
        finally:
            sys.settrace(None)
        if actual != expected or removed:
            wrong.append((depth, expected, actual, removed))

    if wrong:
        for depth, expected, actual, removed in wrong:
            print("depth_of(%d): without agent %r, with agent %r%s" % (
                depth, expected, actual, ", and the trace function of the thread was removed" if removed else ""))
        print("DEFECT: an error inside the agent (RecursionError in its event handler) is raised into the application")
        return 1
    print("OK: same results with and without the agent")
    return 0


if __name__ == '__main__':
    sys.exit(main())
