"""
obs2 - unmodified tree: an exception raised by the application's own signal handler is swallowed by the agent.

A host program bounds a computation with signal.setitimer() and a handler that raises (the usual 'timeout' recipe; the
same applies to KeyboardInterrupt from ctrl-c). Python runs signal handlers in the main thread between two bytecodes of
whatever python code is executing. With the agent attached that is very often code of the agent's event handler, which
catches BaseException everywhere (trace_call, the action loop, evaluate_expression, ...): the exception of the
application's handler is logged as "Cannot process line event" and dropped, the application never sees it.

Exit 0: the host gets its exception with and without the agent.  Exit 1: the agent swallowed it (defect present).
"""
import faulthandler
import logging
import os
import signal
import sys
import time

faulthandler.dump_traceback_later(120, exit=True)
logging.getLogger("deep").addHandler(logging.NullHandler())
logging.getLogger("deep").propagate = False

from deep.api.resource import Resource  # noqa: E402
from deep.api.tracepoint.trigger import LineLocation, Location, LocationAction, Trigger  # noqa: E402
from deep.config import ConfigService  # noqa: E402
from deep.processor.trigger_handler import TriggerHandler  # noqa: E402
from deep.push.push_service import PushService  # noqa: E402


class CollectingPush(PushService):
    def __init__(self):
        super().__init__(None, None)
        self.pushed = 0

    def push_snapshot(self, snapshot):
        self.pushed += 1


class Config(ConfigService):
    @property
    def resource(self):
        return Resource.get_empty()


# ---------------------------------------------------------------- the host program
class Deadline(Exception):
    pass


def on_alarm(signum, frame):
    raise Deadline()


def step(n):
    data = {"n": n, "squares": [n * n, n + 1]}
    return n + len(data)  # TRACEPOINT


def host_program(deadline=0.3, safety=2.0):
    """Work until the deadline signal arrives. (The safety bound only exists so that this script terminates.)"""
    previous = signal.signal(signal.SIGALRM, on_alarm)
    started = time.monotonic()
    n = 0
    signal.setitimer(signal.ITIMER_REAL, deadline)
    try:
        while time.monotonic() - started < safety:
            n = step(n)
        return "no Deadline raised, loop ran for %.1fs" % (time.monotonic() - started)
    except Deadline:
        return "Deadline"
    finally:
        signal.setitimer(signal.ITIMER_REAL, 0)
        signal.signal(signal.SIGALRM, previous)


TRACEPOINT_LINE = None
with open(__file__) as source:
    for no, text in enumerate(source, start=1):
        if text.rstrip().endswith("# TRACEPOINT") and "return n" in text:
            TRACEPOINT_LINE = no


def main():
    expected = [host_program() for _ in range(3)]
    print("without agent:", expected)

    handler = TriggerHandler(Config({}), CollectingPush())
    location = LineLocation(os.path.basename(__file__), TRACEPOINT_LINE, Location.Position.START)
    handler.new_config([Trigger(location, [
        LocationAction("tp-1", None, {'watches': ['data'], 'fire_count': '-1', 'fire_period': '0'},
                       LocationAction.ActionType.Snapshot)])])
    actual = []
    for _ in range(3):
        sys.settrace(handler.trace_call)
        try:
            actual.append(host_program())
        finally:
            sys.settrace(None)
    print("with agent   :", actual)
    if actual != expected:
        print("DEFECT: the exception raised by the application's signal handler was lost while the agent's event "
              "handler was running")
        return 1
    print("OK: same behaviour")
    return 0


if __name__ == '__main__':
    sys.exit(main())
