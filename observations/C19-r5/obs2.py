"""
obs2 - empty items of the comma separated IN_APP_INCLUDE / IN_APP_EXCLUDE text are dropped when the text is given in
code (ConfigService.__as_list) but kept when it is given in the environment (deep.config.IN_APP_INCLUDE/EXCLUDE).
An empty prefix matches every file, so DEEP_IN_APP_EXCLUDE='/srv/app/vendor,' (trailing comma) or DEEP_IN_APP_EXCLUDE=''
excludes every frame, while the same text in code excludes only /srv/app/vendor / nothing.
"""
import json
import os
import subprocess
import sys

CHILD = r'''
import json, os, sys
from deep.config import ConfigService
exclude, filename = sys.argv[1:3]
env_cfg = ConfigService({'APP_ROOT': '/srv/app'})
code_cfg = ConfigService({'APP_ROOT': '/srv/app', 'IN_APP_EXCLUDE': exclude})
print(json.dumps({'env': env_cfg.is_app_frame(filename), 'code': code_cfg.is_app_frame(filename)}))
'''

bad = []
filename = '/srv/app/src/main.py'
for exclude in ('/srv/app/vendor,', ''):
    env = {k: v for k, v in os.environ.items() if not k.startswith('DEEP_')}
    env['DEEP_IN_APP_EXCLUDE'] = exclude
    res = subprocess.run([sys.executable, '-c', CHILD, exclude, filename], env=env, capture_output=True, text=True,
                         timeout=120)
    out = json.loads(res.stdout.strip().splitlines()[-1])
    if out['env'] != out['code']:
        bad.append("exclude text %r, file %r (app root /srv/app): environment -> %r, code -> %r"
                   % (exclude, filename, out['env'], out['code']))
if bad:
    print("WRONG: " + "\nWRONG: ".join(bad))
    sys.exit(1)
print("same result from code and environment")
