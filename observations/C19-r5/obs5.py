"""
obs5 - NO_TRACE (undocumented, read by TriggerHandler.start) is used as a truth value without conversion, so the text
'False' from the environment (DEEP_NO_TRACE=False) switches tracing OFF while NO_TRACE=False in code leaves it on.
"""
import os
import sys
import threading

from deep.config import ConfigService
from deep.processor.trigger_handler import TriggerHandler


def installed(cfg):
    handler = TriggerHandler(cfg, None)
    old = sys.gettrace()
    handler.start()
    try:
        return sys.gettrace() == handler.trace_call
    finally:
        handler.shutdown()
        sys.settrace(old)
        threading.settrace(None)


from_code = installed(ConfigService({'NO_TRACE': False}))
os.environ['DEEP_NO_TRACE'] = 'False'
from_env = installed(ConfigService({}))
if from_code != from_env:
    print("WRONG: NO_TRACE=False in code -> trace function installed: %s; DEEP_NO_TRACE=False -> installed: %s"
          % (from_code, from_env))
    sys.exit(1)
print("same behaviour")
