"""
obs4 - keys that happen to be names in the namespace of the module deep.config (its imports: os, sys, ConfigService,
config_service, tracepoint_config) are not 'unknown keys': they do not resolve to their DEEP_ environment variable (or
to None) but to the module/class object - and the class, being callable, is even called.
"""
import os
import sys

os.environ['DEEP_os'] = 'from-env'
os.environ['DEEP_ConfigService'] = 'from-env'
from deep.config import ConfigService  # noqa: E402

cfg = ConfigService({})
bad = []
for key in ('os', 'ConfigService'):
    value = getattr(cfg, key)
    if value != 'from-env':
        bad.append("key %r with DEEP_%s=from-env resolves to %r" % (key, key, value))
value = cfg.sys  # no DEEP_sys in the environment: must be absent (None)
if value is not None:
    bad.append("key 'sys' without any DEEP_sys resolves to %r instead of None" % (value,))
if bad:
    print("WRONG: " + "\nWRONG: ".join(bad))
    sys.exit(1)
print("ok")
