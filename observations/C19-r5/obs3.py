"""
obs3 - SERVICE_SECURE given in code as the boolean False (docs: "Can be set to False ...") does not behave like
DEEP_SERVICE_SECURE=False: GRPCService.start() passes the value to str2bool() which calls .lower() on it.
"""
import sys

import grpc

from deep.config import ConfigService
from deep.grpc import GRPCService

opened = []
grpc.secure_channel = lambda url, creds, *a, **k: opened.append('secure') or object()
grpc.insecure_channel = lambda url, *a, **k: opened.append('insecure') or object()

results = {}
for value in ('False', False):
    del opened[:]
    try:
        GRPCService(ConfigService({'SERVICE_SECURE': value})).start()
        results[repr(value)] = opened[0]
    except Exception as e:
        results[repr(value)] = 'raised %r' % e
if results["'False'"] != results['False']:
    print("WRONG: SERVICE_SECURE='False' -> %s, SERVICE_SECURE=False -> %s" % (results["'False'"], results['False']))
    sys.exit(1)
print("same behaviour")
