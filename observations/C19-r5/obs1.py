"""
obs1 - IN_APP_EXCLUDE given in the environment does not behave like IN_APP_EXCLUDE given in code.

deep.config.IN_APP_EXCLUDE() (the environment backed default) always appends sys.exec_prefix to the list, a value given
in code replaces the whole list.  So the same text 'X' as DEEP_IN_APP_EXCLUDE or as {'IN_APP_EXCLUDE': 'X'} classifies a
file under sys.exec_prefix differently (exclusion wins over the include prefix only in the environment case).
"""
import json
import os
import subprocess
import sys

CHILD = r'''
import json, os, sys
from deep.config import ConfigService
include, exclude, filename = sys.argv[1:4]
env_cfg = ConfigService({'APP_ROOT': '/srv/app'})
code_cfg = ConfigService({'APP_ROOT': '/srv/app', 'IN_APP_INCLUDE': include, 'IN_APP_EXCLUDE': exclude})
print(json.dumps({'env': env_cfg.is_app_frame(filename), 'code': code_cfg.is_app_frame(filename)}))
'''

include = os.path.join(sys.exec_prefix, 'lib', 'mycompany')
exclude = '/srv/app/vendor'
filename = os.path.join(include, 'billing', 'invoice.py')
env = {k: v for k, v in os.environ.items() if not k.startswith('DEEP_')}
env['DEEP_IN_APP_INCLUDE'] = include
env['DEEP_IN_APP_EXCLUDE'] = exclude
res = subprocess.run([sys.executable, '-c', CHILD, include, exclude, filename], env=env, capture_output=True,
                     text=True, timeout=120)
out = json.loads(res.stdout.strip().splitlines()[-1])
if out['env'] != out['code']:
    print("WRONG: include=%r exclude=%r file=%r: from the environment is_app_frame -> %r, from code -> %r"
          % (include, exclude, filename, out['env'], out['code']))
    sys.exit(1)
print("same result from code and environment")
