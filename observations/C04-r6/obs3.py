"""
Observation 3 (unmodified tree): fire_period does not hold for a hit that reaches the limiter more than 16 fires late.

LocationAction compares a hit with the newest fire, the hits in progress and the last 16 recorded fires
(self.__recent = (...)[-16:]). The timestamp of a hit is taken when its trace event starts; a thread that is held up
between that moment and the limiter (descheduled, or - as here - busy with a slow collection for another tracepoint on the
same line) while 17 or more later hits are collected is compared with none of the fires around its own timestamp.
With fire_period=20 ms that is a delay of ~0.4 s; with fire_period=1 ms a delay of 17 ms is enough.

Same set-up as demo3.py: SLOW (fire_count=1, slow watch) and RATE (unlimited, fire_period=20 ms) on one line. Thread 1 hits
at t0 and is kept busy by SLOW; 18 more hits, 25 ms apart, are collected by RATE; then thread 1 reaches RATE with t0.

exit 1 = the defect is present (two snapshots of RATE whose hits are less than 20 ms apart).
Run: cd /tmp/seed6_C04 && PYTHONPATH=/tmp/seed6_C04/src:/tmp/seed6_C04/tests /venv/bin/python /tmp/seed6_C04_out/obs3.py
"""
import importlib.util
import logging
import os
import sys
import tempfile
import threading
import time

from deep.api.resource import Resource
from deep.api.tracepoint.trigger import build_trigger
from deep.config import ConfigService
from deep.processor.trigger_handler import TriggerHandler
from deep.push.push_service import PushService

logging.getLogger("deep").addHandler(logging.NullHandler())
logging.getLogger("deep").propagate = False

SOURCE = '''
def target(n):
    value = n * 2
    return value
'''
LINE = 4
PERIOD_MS = 20
LATER_HITS = 18


class RecordingPush(PushService):
    def __init__(self):
        super().__init__(None, None)
        self.pushed = []
        self.lock = threading.Lock()

    def push_snapshot(self, snapshot):
        with self.lock:
            self.pushed.append(snapshot)


def main():
    tmp_dir = tempfile.mkdtemp(prefix="c04_obs3_")
    path = os.path.join(tmp_dir, "c04_obs3_target.py")
    try:
        with open(path, "w") as f:
            f.write(SOURCE)
        spec = importlib.util.spec_from_file_location("c04_obs3_target", path)
        module = importlib.util.module_from_spec(spec)
        spec.loader.exec_module(module)
        name = os.path.basename(path)

        entered = threading.Event()
        let_go = threading.Event()

        def hold(n):
            if n == 0:
                entered.set()
                let_go.wait(30)
            return n

        module.hold = hold

        config = ConfigService({})
        config.resource = Resource.get_empty()
        push = RecordingPush()
        handler = TriggerHandler(config, push)
        slow = build_trigger("SLOW", name, LINE, {'fire_count': '1'}, ['hold(n)'], [])
        rate = build_trigger("RATE", name, LINE, {'fire_count': '-1', 'fire_period': str(PERIOD_MS)}, [], [])
        handler.new_config([slow, rate])

        def run(n):
            sys.settrace(handler.trace_call)
            try:
                module.target(n)
            finally:
                sys.settrace(None)

        first = threading.Thread(target=run, args=(0,))
        first.start()
        if not entered.wait(20):
            print("thread 1 never reached the watch expression")
            return 2
        for n in range(1, LATER_HITS + 1):
            run(n)
            time.sleep(PERIOD_MS * 1.25 / 1000.0)
        let_go.set()
        first.join(30)

        snapshots = sorted([s for s in push.pushed if s.tracepoint.id == "RATE"], key=lambda s: s.ts_nanos)
        base = snapshots[0].ts_nanos
        offsets = [round((s.ts_nanos - base) / 1e6, 1) for s in snapshots]
        print("RATE snapshots: %d, hit times (ms): %s" % (len(snapshots), offsets))
        too_close = [(a, b) for a, b in zip(offsets, offsets[1:]) if (b - a) < PERIOD_MS]
    finally:
        try:
            os.remove(path)
            os.rmdir(tmp_dir)
        except OSError:
            pass
    if too_close:
        print("DEFECT: fire_period=%d ms, but RATE collected for hits %.1f ms apart" %
              (PERIOD_MS, too_close[0][1] - too_close[0][0]))
        return 1
    return 0


if __name__ == '__main__':
    sys.exit(main())
