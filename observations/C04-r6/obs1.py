"""
Observation 1 (unmodified tree): a time window given in the args of a tracepoint is never applied.

LocationAction reads window_start / window_end from its config, but the builders that create the actions of a
tracepoint (build_snapshot_action, build_log_action, build_metric_action, build_span_action) do not copy these two args
into the config. So for every tracepoint that comes from the service (poll) or from Deep.register_tracepoint the window
is (0, 0) = "no window", and the tracepoint collects outside its configured window.

Also shown: given directly in the action's config, the window works when the values are ints, but a window given as text
(as every other arg is) makes can_trigger fail with a TypeError, so the action never collects, not even inside the window.

exit 1 = the defect is present.
Run: cd /tmp/seed6_C04 && PYTHONPATH=/tmp/seed6_C04/src:/tmp/seed6_C04/tests /venv/bin/python /tmp/seed6_C04_out/obs1.py
"""
import importlib.util
import logging
import os
import sys
import tempfile
import time

from deep.api.resource import Resource
from deep.api.tracepoint.constants import WINDOW_START, WINDOW_END
from deep.api.tracepoint.trigger import LocationAction, LineLocation, Location, Trigger
from deep.config import ConfigService
from deep.processor.trigger_handler import TriggerHandler
from deep.push.push_service import PushService
from deep.task import TaskHandler

logging.getLogger("deep").addHandler(logging.NullHandler())
logging.getLogger("deep").propagate = False

SOURCE = '''
def target(n):
    value = n * 2
    return value
'''
LINE = 4


class RecordingPush(PushService):
    def __init__(self):
        super().__init__(None, None)
        self.pushed = []

    def push_snapshot(self, snapshot):
        self.pushed.append(snapshot)


def hit(handler, module, n=1):
    sys.settrace(handler.trace_call)
    try:
        module.target(n)
    finally:
        sys.settrace(None)


def main():
    tmp_dir = tempfile.mkdtemp(prefix="c04_obs1_")
    path = os.path.join(tmp_dir, "c04_obs1_target.py")
    problems = []
    try:
        with open(path, "w") as f:
            f.write(SOURCE)
        spec = importlib.util.spec_from_file_location("c04_obs1_target", path)
        module = importlib.util.module_from_spec(spec)
        spec.loader.exec_module(module)
        name = os.path.basename(path)

        # 1. a window that ended in 1970 (whatever the unit is), registered the way an application registers a tracepoint
        config = ConfigService({})
        config.resource = Resource.get_empty()
        tasks = TaskHandler()
        config.set_task_handler(tasks)
        push = RecordingPush()
        handler = TriggerHandler(config, push)
        config.tracepoints.add_custom(name, LINE, {'window_start': '1', 'window_end': '2'}, [], [])
        tasks.flush()
        hit(handler, module)
        print("tracepoint args window_start='1', window_end='2' (long over): %d snapshot(s)" % len(push.pushed))
        if len(push.pushed) != 0:
            problems.append("a tracepoint whose window (args window_start/window_end) is long over still collected")

        # 2. the same window as ints directly in the config of the action: works
        config = ConfigService({})
        config.resource = Resource.get_empty()
        push = RecordingPush()
        handler = TriggerHandler(config, push)
        location = LineLocation(name, LINE, Location.Position.START)
        handler.new_config([Trigger(location, [LocationAction("direct", None, {WINDOW_START: 1, WINDOW_END: 2},
                                                              LocationAction.ActionType.Snapshot)])])
        hit(handler, module)
        print("action config window_start=1, window_end=2 (ints): %d snapshot(s)" % len(push.pushed))

        # 3. a window that is open (started in 1970, no end), as text
        push = RecordingPush()
        handler = TriggerHandler(config, push)
        handler.new_config([Trigger(location, [LocationAction("text", None, {WINDOW_START: '1'},
                                                              LocationAction.ActionType.Snapshot)])])
        hit(handler, module)
        print("action config window_start='1' (text, window is open now=%d): %d snapshot(s)"
              % (time.time_ns(), len(push.pushed)))
        if len(push.pushed) != 1:
            problems.append("an action whose window is given as text never collects (TypeError in in_window)")
    finally:
        try:
            os.remove(path)
            os.rmdir(tmp_dir)
        except OSError:
            pass
    for problem in problems:
        print("DEFECT: " + problem)
    return 1 if problems else 0


if __name__ == '__main__':
    sys.exit(main())
