"""
Observation 5 (unmodified tree): a condition that holds, but whose value is not True / 1 / 'yes'..., does not collect.

constants.py documents the condition as "The condition that has to be 'truthy' for this tracepoint to fire".
ActionContext.can_trigger converts the value with str2bool(str(result)): only True, 1 and the texts yes/true/t/1/y count.
A condition such as 'n' with n=2, 'len(items)' with 3 items, or 'name' with a non-empty name is truthy, the limits allow
the collection, and the hit does not collect.

exit 1 = the defect is present.
Run: cd /tmp/seed6_C04 && PYTHONPATH=/tmp/seed6_C04/src:/tmp/seed6_C04/tests /venv/bin/python /tmp/seed6_C04_out/obs5.py
"""
import importlib.util
import logging
import os
import sys
import tempfile

from deep.api.resource import Resource
from deep.api.tracepoint.trigger import build_trigger
from deep.config import ConfigService
from deep.processor.trigger_handler import TriggerHandler
from deep.push.push_service import PushService

logging.getLogger("deep").addHandler(logging.NullHandler())
logging.getLogger("deep").propagate = False

SOURCE = '''
def target(n, items, name):
    value = n * 2
    return value
'''
LINE = 4


class RecordingPush(PushService):
    def __init__(self):
        super().__init__(None, None)
        self.pushed = []

    def push_snapshot(self, snapshot):
        self.pushed.append(snapshot)


def main():
    tmp_dir = tempfile.mkdtemp(prefix="c04_obs5_")
    path = os.path.join(tmp_dir, "c04_obs5_target.py")
    problems = []
    try:
        with open(path, "w") as f:
            f.write(SOURCE)
        spec = importlib.util.spec_from_file_location("c04_obs5_target", path)
        module = importlib.util.module_from_spec(spec)
        spec.loader.exec_module(module)
        name = os.path.basename(path)

        for condition in ["n == 2", "n", "len(items)", "items", "name"]:
            config = ConfigService({})
            config.resource = Resource.get_empty()
            push = RecordingPush()
            handler = TriggerHandler(config, push)
            handler.new_config([build_trigger("tp", name, LINE, {'condition': condition}, [], [])])
            sys.settrace(handler.trace_call)
            try:
                module.target(2, ['a', 'b', 'c'], 'bob')
            finally:
                sys.settrace(None)
            truthy = bool(eval(condition, {}, {'n': 2, 'items': ['a', 'b', 'c'], 'name': 'bob'}))
            print("condition %-12r truthy=%s -> %d snapshot(s)" % (condition, truthy, len(push.pushed)))
            if truthy and len(push.pushed) != 1:
                problems.append("condition %r holds (n=2, items=['a','b','c'], name='bob') but the hit did not collect"
                                % condition)
    finally:
        try:
            os.remove(path)
            os.rmdir(tmp_dir)
        except OSError:
            pass
    for problem in problems:
        print("DEFECT: " + problem)
    return 1 if problems else 0


if __name__ == '__main__':
    sys.exit(main())
