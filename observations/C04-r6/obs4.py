"""
Observation 4 (unmodified tree): an infinite fire_count / fire_period is not treated like the other values that cannot
be converted - the action never collects.

LocationAction.__get_int catches ValueError and TypeError (text that is no number, None, a list -> the default applies),
but int(float('inf')) raises OverflowError. It is raised out of can_trigger, the trigger handler logs "Cannot process
action", and the tracepoint never collects (fire_count=float('nan'), by contrast, falls back to the default 1).
Only reachable when the action is configured in code (args from the service are text; 'inf' as text is a ValueError).

exit 1 = the defect is present.
Run: cd /tmp/seed6_C04 && PYTHONPATH=/tmp/seed6_C04/src:/tmp/seed6_C04/tests /venv/bin/python /tmp/seed6_C04_out/obs4.py
"""
import importlib.util
import logging
import os
import sys
import tempfile
import time

from deep.api.resource import Resource
from deep.config import ConfigService
from deep.processor.trigger_handler import TriggerHandler
from deep.push.push_service import PushService
from deep.task import TaskHandler


class Errors(logging.Handler):
    def __init__(self):
        super().__init__(logging.ERROR)
        self.messages = []

    def emit(self, record):
        exc = record.exc_info[1] if record.exc_info else None
        self.messages.append("%s -> %s: %s" % (record.getMessage()[:24], type(exc).__name__, exc))


errors = Errors()
logging.getLogger("deep").addHandler(errors)
logging.getLogger("deep").propagate = False

SOURCE = '''
def target(n):
    value = n * 2
    return value
'''
LINE = 4


class RecordingPush(PushService):
    def __init__(self):
        super().__init__(None, None)
        self.pushed = []

    def push_snapshot(self, snapshot):
        self.pushed.append(snapshot)


def main():
    tmp_dir = tempfile.mkdtemp(prefix="c04_obs4_")
    path = os.path.join(tmp_dir, "c04_obs4_target.py")
    problems = []
    try:
        with open(path, "w") as f:
            f.write(SOURCE)
        spec = importlib.util.spec_from_file_location("c04_obs4_target", path)
        module = importlib.util.module_from_spec(spec)
        spec.loader.exec_module(module)
        name = os.path.basename(path)

        for description, args in [("fire_count=nan", {'fire_count': float('nan')}),
                                  ("fire_count=inf", {'fire_count': float('inf')}),
                                  ("fire_period=inf", {'fire_period': float('inf')})]:
            config = ConfigService({})
            config.resource = Resource.get_empty()
            tasks = TaskHandler()
            config.set_task_handler(tasks)
            push = RecordingPush()
            handler = TriggerHandler(config, push)
            config.tracepoints.add_custom(name, LINE, args, [], [])
            tasks.flush()
            del errors.messages[:]
            sys.settrace(handler.trace_call)
            try:
                for n in range(3):
                    module.target(n)
                    time.sleep(0.01)
            finally:
                sys.settrace(None)
            print("%-16s 3 hits: %d snapshot(s) %s" % (description, len(push.pushed), errors.messages[:1]))
            if len(push.pushed) == 0:
                problems.append("%s: the tracepoint never collects (expected: at least the first hit)" % description)
    finally:
        try:
            os.remove(path)
            os.rmdir(tmp_dir)
        except OSError:
            pass
    for problem in problems:
        print("DEFECT: " + problem)
    return 1 if problems else 0


if __name__ == '__main__':
    sys.exit(main())
