"""
Observation 2 (unmodified tree): a tracepoint that stays installed gets a fresh fire_count with every configuration
update from the service.

The poll answer UPDATE carries the complete list of tracepoints; convert_response builds new Trigger / LocationAction
objects for all of them, and the fire statistics live in these objects. So whenever anything changes on the service
(here: an unrelated tracepoint on another line is added), a tracepoint that is still installed (same ID, same args,
fire_count=1) and has used up its fire_count collects again.

The steps below are what LongPoll.poll does with an UPDATE answer (convert_response + update_new_config), without gRPC.

exit 1 = the defect is present.
Run: cd /tmp/seed6_C04 && PYTHONPATH=/tmp/seed6_C04/src:/tmp/seed6_C04/tests /venv/bin/python /tmp/seed6_C04_out/obs2.py
"""
import importlib.util
import logging
import os
import sys
import tempfile
import time

from deepproto.proto.tracepoint.v1.tracepoint_pb2 import TracePointConfig

from deep.api.resource import Resource
from deep.config import ConfigService
from deep.grpc import convert_response
from deep.processor.trigger_handler import TriggerHandler
from deep.push.push_service import PushService
from deep.task import TaskHandler

logging.getLogger("deep").addHandler(logging.NullHandler())
logging.getLogger("deep").propagate = False

SOURCE = '''
def target(n):
    value = n * 2
    return value
'''
LINE = 4


class RecordingPush(PushService):
    def __init__(self):
        super().__init__(None, None)
        self.pushed = []

    def push_snapshot(self, snapshot):
        self.pushed.append(snapshot)


def hit(handler, module, n=1):
    sys.settrace(handler.trace_call)
    try:
        module.target(n)
    finally:
        sys.settrace(None)


def await_tasks(config):
    # the listeners are updated by the task handler's thread
    deadline = time.time() + 10
    # noinspection PyProtectedMember
    handler = config.tracepoints._task_handler
    # noinspection PyProtectedMember
    while handler._pending and time.time() < deadline:
        time.sleep(0.01)


def main():
    tmp_dir = tempfile.mkdtemp(prefix="c04_obs2_")
    path = os.path.join(tmp_dir, "c04_obs2_target.py")
    try:
        with open(path, "w") as f:
            f.write(SOURCE)
        spec = importlib.util.spec_from_file_location("c04_obs2_target", path)
        module = importlib.util.module_from_spec(spec)
        spec.loader.exec_module(module)
        name = os.path.basename(path)

        config = ConfigService({})
        config.resource = Resource.get_empty()
        config.set_task_handler(TaskHandler())
        push = RecordingPush()
        handler = TriggerHandler(config, push)

        once = TracePointConfig(ID="tp-once", path=name, line_number=LINE,
                                args={'fire_count': '1', 'fire_period': '10'}, watches=[], metrics=[])
        other = TracePointConfig(ID="tp-other", path="some_other_file.py", line_number=99, args={}, watches=[],
                                 metrics=[])

        config.tracepoints.update_new_config(time.time_ns(), "hash-1", convert_response([once]))
        await_tasks(config)
        for n in range(3):
            hit(handler, module, n)
            time.sleep(0.03)
        first = len(push.pushed)
        print("tp-once (fire_count=1) installed, 3 hits: %d snapshot(s)" % first)

        # the service gets another tracepoint; tp-once is unchanged and still part of the configuration
        config.tracepoints.update_new_config(time.time_ns(), "hash-2", convert_response([once, other]))
        await_tasks(config)
        for n in range(3):
            hit(handler, module, n)
            time.sleep(0.03)
        total = len([s for s in push.pushed if s.tracepoint.id == "tp-once"])
        print("after an update that only adds tp-other, 3 more hits: %d snapshot(s) of tp-once in total" % total)
    finally:
        try:
            os.remove(path)
            os.rmdir(tmp_dir)
        except OSError:
            pass
    if first == 1 and total > 1:
        print("DEFECT: tp-once stayed installed with fire_count=1 and collected %d times" % total)
        return 1
    return 0


if __name__ == '__main__':
    sys.exit(main())
