"""
Observation 2 (unmodified tree, CPython <= 3.12): while a snapshot (or a log/watch/condition) is processed for a
function, updates that ANOTHER thread makes to a closure variable of that function are lost.

The agent reads frame.f_locals of the paused frame (frame collector, evaluate_expression, log action). On CPython up to
3.12 that copies the fast locals and cells into a dict, and when the trace function returns the interpreter writes the
dict back (PyFrame_LocalsToFast) - including the cells, with the values they had when they were read. Whatever another
thread stored in such a cell in between (nonlocal counter; counter += 1) is overwritten with the stale value. The
window is as long as the agent needs for the event (milliseconds for a snapshot).

exit 1 (and a description) when the defect shows, exit 0 otherwise.
"""
import faulthandler
import inspect
import logging
import os
import sys
import threading
import time

faulthandler.dump_traceback_later(120, exit=True)

from deep.api.resource import Resource  # noqa: E402
from deep.api.tracepoint.trigger import Trigger, LineLocation, Location, LocationAction  # noqa: E402
from deep.config import ConfigService  # noqa: E402
from deep.processor.trigger_handler import TriggerHandler  # noqa: E402
from deep.push.push_service import PushService  # noqa: E402

logging.getLogger("deep").addHandler(logging.NullHandler())
logging.getLogger("deep").propagate = False


class CollectingPush(PushService):
    def __init__(self):
        super().__init__(None, None)
        self.pushed = []

    def push_snapshot(self, snapshot):
        self.pushed.append(snapshot)


def application():
    """Count what a worker thread reports, while the main thread waits for it."""
    handled = 0

    def worker():
        nonlocal handled
        for _ in range(200):
            handled += 1  # only this thread ever writes the variable
            time.sleep(0.0005)

    thread = threading.Thread(target=worker)
    thread.start()
    state = [list(range(10)) for _ in range(10)]
    while thread.is_alive():
        busy = len(state)  # TRACEPOINT
    thread.join()
    return handled


def main():
    plain = application()
    config = ConfigService({})
    config.resource = Resource.get_empty()
    push = CollectingPush()
    handler = TriggerHandler(config, push)
    source = inspect.getsource(application).splitlines()
    line = application.__code__.co_firstlineno + [i for i, t in enumerate(source) if "# TRACEPOINT" in t][0]
    action = LocationAction("tp-1", None, {'fire_count': '-1', 'fire_period': '0'}, LocationAction.ActionType.Snapshot)
    handler.new_config([Trigger(LineLocation(os.path.basename(__file__), line, Location.Position.START), [action])])
    sys.settrace(handler.trace_call)  # the main thread only, the worker is not traced at all
    try:
        traced = application()
    finally:
        sys.settrace(None)
    print("without agent: handled =", plain)
    print("with agent   : handled =", traced, "(%s snapshots taken)" % len(push.pushed))
    if traced != plain:
        print("DEFECT: increments made by the worker thread were lost: the agent's access to frame.f_locals makes the "
              "interpreter write stale values back into the closure cells when the trace event ends")
        return 1
    print("not reproduced")
    return 0


if __name__ == '__main__':
    sys.exit(main())
