"""
Observation 4 (unmodified tree): a value whose __str__/__repr__ takes a lock the application holds at the tracepoint
dead locks the application.

The agent renders every collected value with str() (variable_processor.variable_to_string) on the application's own
thread, in the middle of the traced line. A class that guards its state with a (non reentrant) threading.Lock and takes
that lock in __str__ is ordinary code; a snapshot on a line inside 'with self._lock:' calls str(self) while the thread
already owns the lock, and blocks for ever. Without the agent the program finishes.

exit 1 (and a description) when the defect shows, exit 0 otherwise.
"""
import faulthandler
import inspect
import logging
import os
import sys
import threading

faulthandler.dump_traceback_later(120, exit=True)

from deep.api.resource import Resource  # noqa: E402
from deep.api.tracepoint.trigger import Trigger, LineLocation, Location, LocationAction  # noqa: E402
from deep.config import ConfigService  # noqa: E402
from deep.processor.trigger_handler import TriggerHandler  # noqa: E402
from deep.push.push_service import PushService  # noqa: E402

logging.getLogger("deep").addHandler(logging.NullHandler())
logging.getLogger("deep").propagate = False


class NoPush(PushService):
    def __init__(self):
        super().__init__(None, None)

    def push_snapshot(self, snapshot):
        pass


class Account:
    def __init__(self):
        self._lock = threading.Lock()
        self.balance = 0

    def __str__(self):
        with self._lock:
            return "Account(balance=%s)" % self.balance

    def deposit(self, amount):
        with self._lock:
            self.balance += amount  # TRACEPOINT
        return self.balance


def application():
    return Account().deposit(5)


def main():
    plain = application()
    config = ConfigService({})
    config.resource = Resource.get_empty()
    handler = TriggerHandler(config, NoPush())
    source, first = inspect.getsourcelines(Account)
    line = first + [i for i, t in enumerate(source) if "# TRACEPOINT" in t][0]
    action = LocationAction("tp-1", None, {}, LocationAction.ActionType.Snapshot)
    handler.new_config([Trigger(LineLocation(os.path.basename(__file__), line, Location.Position.START), [action])])
    outcome = []

    def traced():
        sys.settrace(handler.trace_call)
        try:
            outcome.append(application())
        finally:
            sys.settrace(None)

    thread = threading.Thread(target=traced, daemon=True)
    thread.start()
    thread.join(10)
    print("without agent:", plain)
    print("with agent   :", outcome[0] if outcome else "no result after 10 seconds")
    if thread.is_alive() or outcome != [plain]:
        print("DEFECT: the application thread hangs inside the agent: the snapshot calls str(self), which waits for "
              "the lock the thread itself holds on the traced line")
        return 1
    print("not reproduced")
    return 0


if __name__ == '__main__':
    code = main()
    sys.stdout.flush()
    os._exit(code)  # (the hung daemon thread must not keep us)
