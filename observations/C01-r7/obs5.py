"""
Observation 5 (unmodified tree, CPython <= 3.12): after a snapshot, objects that a CALLER of the traced function drops
are no longer released when they are dropped - even though only the innermost frame is collected (frame type
'single_frame', the default).

FrameCollector._process_frame reads frame.f_locals of EVERY frame on the stack before it looks at collect_vars. On
CPython up to 3.12 reading f_locals materialises a dict of the locals on the frame object, which stays there (and is
refreshed once more at that frame's next trace event) until the function returns. 'resource = None' / 'del resource'
in the caller then does not drop the last reference any more: the finaliser (or weakref callback) runs when the caller
returns instead. The same holds for the traced frame itself.

exit 1 (and a description) when the defect shows, exit 0 otherwise.
"""
import faulthandler
import inspect
import logging
import os
import sys

faulthandler.dump_traceback_later(120, exit=True)

from deep.api.resource import Resource  # noqa: E402
from deep.api.tracepoint.trigger import Trigger, LineLocation, Location, LocationAction  # noqa: E402
from deep.config import ConfigService  # noqa: E402
from deep.processor.trigger_handler import TriggerHandler  # noqa: E402
from deep.push.push_service import PushService  # noqa: E402

logging.getLogger("deep").addHandler(logging.NullHandler())
logging.getLogger("deep").propagate = False


class CollectingPush(PushService):
    def __init__(self):
        super().__init__(None, None)
        self.pushed = []

    def push_snapshot(self, snapshot):
        self.pushed.append(snapshot)


events = []


class Lease:
    def __init__(self, name):
        self.name = name

    def __del__(self):
        events.append("lease %s given back" % self.name)


def check():
    ok = True
    return ok  # TRACEPOINT


def application():
    del events[:]
    lease = Lease("A")
    check()
    events.append("caller drops the lease")
    lease = None
    events.append("caller goes on")
    return list(events)


def main():
    plain = application()
    config = ConfigService({})
    config.resource = Resource.get_empty()
    push = CollectingPush()
    handler = TriggerHandler(config, push)
    source = inspect.getsource(check).splitlines()
    line = check.__code__.co_firstlineno + [i for i, t in enumerate(source) if "# TRACEPOINT" in t][0]
    action = LocationAction("tp-1", None, {}, LocationAction.ActionType.Snapshot)  # single frame
    handler.new_config([Trigger(LineLocation(os.path.basename(__file__), line, Location.Position.START), [action])])
    sys.settrace(handler.trace_call)
    try:
        traced = application()
    finally:
        sys.settrace(None)
    print("without agent:", plain)
    print("with agent   :", traced, "(%s snapshot, frames with variables: %s)" % (
        len(push.pushed), [len(f.variables) > 0 for f in push.pushed[0].frames][:3] if push.pushed else None))
    if traced != plain:
        print("DEFECT: the lease is not given back when the caller drops it: the agent touched frame.f_locals of the "
              "caller's frame (which it does not even collect), the dict that creates keeps the object alive until "
              "the caller returns")
        return 1
    print("not reproduced")
    return 0


if __name__ == '__main__':
    sys.exit(main())
