"""
Observation 7 (unmodified tree): deep.start() re-configures the ROOT logger of the application.

deep.start() -> deep.logging.init() -> logging.config.fileConfig(src/deep/logging/logging.conf). That file does not
only describe the 'deep' logger, it has a [logger_root] section: level=DEBUG, handler = a StreamHandler on sys.stdout.
fileConfig() replaces the handlers of the root logger. From then on every logger of the APPLICATION that has no
configuration of its own prints DEBUG and INFO records it never printed before, WARNING/ERROR records move from stderr
(logging.lastResort, or what the application had configured with basicConfig before) to stdout, in the agent's format.

exit 1 (and a description) when the defect shows, exit 0 otherwise.
"""
import contextlib
import faulthandler
import io
import logging
import sys

faulthandler.dump_traceback_later(120, exit=True)


def application():
    log = logging.getLogger("shop.orders")
    log.debug("card number 4111-1111 (debug detail that is never printed)")
    log.warning("stock is low")
    root = logging.getLogger()
    return root.level, [type(handler).__name__ for handler in root.handlers]


def captured(function):
    out, err = io.StringIO(), io.StringIO()
    with contextlib.redirect_stdout(out), contextlib.redirect_stderr(err):
        result = function()
    return result, out.getvalue(), err.getvalue()


def with_agent():
    import deep
    # nothing listens there: the agent logs that it cannot poll, and carries on
    agent = deep.start({'SERVICE_URL': '127.0.0.1:9', 'SERVICE_SECURE': 'False', 'POLL_TIMER': 3600})
    try:
        return application()
    finally:
        agent.shutdown()


def main():
    plain = captured(application)
    traced = captured(with_agent)
    app_lines = [line for line in traced[1].splitlines() if "shop.orders" in line]
    print("without agent: root (level, handlers) = %s, stdout = %r, stderr = %r" % plain)
    print("with agent   : root (level, handlers) = %s" % (traced[0],))
    print("               application records on stdout: %s" % app_lines)
    print("               stderr = %r" % traced[2])
    if traced[0] != plain[0] or app_lines or traced[2] != plain[2]:
        print("DEFECT: starting the agent changed the root logger of the application: its DEBUG record is printed, "
              "its WARNING went to stdout in the agent's format instead of stderr")
        return 1
    print("not reproduced")
    return 0


if __name__ == '__main__':
    sys.exit(main())
