"""
Observation 1 (unmodified tree): an exception the application raises from a signal handler (a timeout via
signal.setitimer/alarm, Ctrl-C -> KeyboardInterrupt) is swallowed by the agent when the signal arrives while a trace
event is being handled - which is where a traced, CPU bound program spends most of its time.

TriggerHandler.trace_call catches BaseException around everything it does. Python runs a signal handler between two
byte codes of whatever code is executing; if that is agent code, the handler's exception propagates inside the agent,
is logged as 'Cannot process line event' and dropped. The application never sees its TimeoutError/KeyboardInterrupt.

exit 1 (and a description) when the defect shows, exit 0 otherwise.
"""
import faulthandler
import logging
import signal
import sys
import time

faulthandler.dump_traceback_later(120, exit=True)

from deep.api.resource import Resource  # noqa: E402
from deep.api.tracepoint.trigger import Trigger, LineLocation, Location, LocationAction  # noqa: E402
from deep.config import ConfigService  # noqa: E402
from deep.processor.trigger_handler import TriggerHandler  # noqa: E402
from deep.push.push_service import PushService  # noqa: E402

logging.getLogger("deep").addHandler(logging.NullHandler())
logging.getLogger("deep").propagate = False


class NoPush(PushService):
    def __init__(self):
        super().__init__(None, None)

    def push_snapshot(self, snapshot):
        pass


def application():
    """Work for at most 0.3 seconds (the loop itself gives up after 3 seconds)."""

    def on_alarm(signum, frame):
        raise TimeoutError("time budget used up")

    signal.signal(signal.SIGALRM, on_alarm)
    signal.setitimer(signal.ITIMER_REAL, 0.3)
    started = time.time()
    rounds = 0
    try:
        while time.time() - started < 3:
            rounds += 1
        return "the loop ran for 3 seconds, the timeout was never raised"
    except TimeoutError:
        return "stopped by the timeout"
    finally:
        signal.setitimer(signal.ITIMER_REAL, 0)


def main():
    plain = application()
    config = ConfigService({})
    config.resource = Resource.get_empty()
    handler = TriggerHandler(config, NoPush())
    # one tracepoint somewhere else: the handler looks at every event, none matches
    handler.new_config([Trigger(LineLocation('elsewhere.py', 1, Location.Position.START),
                                [LocationAction("tp-1", None, {}, LocationAction.ActionType.Snapshot)])])
    outcomes = []
    for _ in range(3):
        sys.settrace(handler.trace_call)
        try:
            outcomes.append(application())
        finally:
            sys.settrace(None)
    print("without agent:", plain)
    print("with agent   :", outcomes)
    if any(outcome != plain for outcome in outcomes):
        print("DEFECT: the TimeoutError raised by the application's signal handler was swallowed by the agent "
              "(raised while a trace event was handled, caught by 'except BaseException' in trace_call)")
        return 1
    print("not reproduced")
    return 0


if __name__ == '__main__':
    sys.exit(main())
