"""
Observation 6 (unmodified tree): a program that recurses close to the recursion limit - and works without the agent -
gets a RecursionError raised in its own code with the agent attached, and loses tracing for the thread.

The event handler needs stack frames of its own. When it runs out of them, the RecursionError is caught by
'except BaseException' in TriggerHandler.trace_call - whose handler calls logging.exception(), which needs more frames
than are left (Logger.exception -> _log -> handle -> callHandlers -> emit -> format -> formatException ...; the stream
handler re-raises RecursionError on purpose). The second RecursionError leaves trace_call, the interpreter raises it
in the application and removes the trace function of the thread (sys.gettrace() is None afterwards).

A trace function needs one frame by nature; here the agent needs more than ten (a program with 10 frames left below the
limit fails, one with 15 works).

exit 1 (and a description) when the defect shows, exit 0 otherwise.
"""
import faulthandler
import inspect
import io
import logging
import os
import sys

faulthandler.dump_traceback_later(120, exit=True)

from deep.api.resource import Resource  # noqa: E402
from deep.api.tracepoint.trigger import Trigger, LineLocation, Location, LocationAction  # noqa: E402
from deep.config import ConfigService  # noqa: E402
from deep.processor.trigger_handler import TriggerHandler  # noqa: E402
from deep.push.push_service import PushService  # noqa: E402

_handler = logging.StreamHandler(io.StringIO())
logging.getLogger("deep").addHandler(_handler)
logging.getLogger("deep").propagate = False


class CollectingPush(PushService):
    def __init__(self):
        super().__init__(None, None)
        self.pushed = []

    def push_snapshot(self, snapshot):
        self.pushed.append(snapshot)


def stack_depth():
    frame, depth = sys._getframe(), 0
    while frame is not None:
        frame, depth = frame.f_back, depth + 1
    return depth


def descend(levels):
    if levels == 0:
        bottom = True
        return 0  # TRACEPOINT
    return 1 + descend(levels - 1)


def application(headroom):
    """Recurse until 'headroom' frames are left below the recursion limit."""
    levels = sys.getrecursionlimit() - stack_depth() - headroom
    try:
        return descend(levels)
    except RecursionError:
        return "RecursionError"


def main():
    config = ConfigService({})
    config.resource = Resource.get_empty()
    source = inspect.getsource(descend).splitlines()
    line = descend.__code__.co_firstlineno + [i for i, t in enumerate(source) if "# TRACEPOINT" in t][0]
    defects = []
    for headroom in (25, 20, 15, 10, 5):
        plain = application(headroom)
        push = CollectingPush()
        handler = TriggerHandler(config, push)
        action = LocationAction("tp-1", None, {}, LocationAction.ActionType.Snapshot)
        handler.new_config([Trigger(LineLocation(os.path.basename(__file__), line, Location.Position.START),
                                    [action])])
        sys.settrace(handler.trace_call)
        try:
            traced = application(headroom)
            still_traced = sys.gettrace() is not None
        finally:
            sys.settrace(None)
        print("frames left %2d: without agent %s, with agent %s, thread still traced afterwards: %s, snapshots: %s" % (
            headroom, plain, traced, still_traced, len(push.pushed)))
        if traced != plain or not still_traced:
            defects.append(headroom)
    if defects:
        print("DEFECT: with %s frames left below the recursion limit the application gets a RecursionError it does not "
              "get without the agent, and the trace function of the thread has been removed" % defects)
        return 1
    print("not reproduced")
    return 0


if __name__ == '__main__':
    sys.exit(main())
