"""
Observation 3 (unmodified tree): the PythonPlugin (shipped, active by default) calls threading.current_thread() when it
decorates a snapshot. In a thread that was not created through the threading module (_thread.start_new_thread, a C
extension, an embedding application) that call REGISTERS a _DummyThread in threading's table, where it stays (3.12:
for the life of the process). threading.enumerate()/active_count() of the application then report a thread that is
neither there without the agent nor alive.

(src/deep/thread_local.py documents exactly this side effect as the reason for not using current_thread() there.)

exit 1 (and a description) when the defect shows, exit 0 otherwise.
"""
import _thread
import faulthandler
import inspect
import logging
import os
import sys
import threading
import time

faulthandler.dump_traceback_later(120, exit=True)

from deep.api.plugin.python import PythonPlugin  # noqa: E402
from deep.api.resource import Resource  # noqa: E402
from deep.api.tracepoint.trigger import Trigger, LineLocation, Location, LocationAction  # noqa: E402
from deep.config import ConfigService  # noqa: E402
from deep.processor.trigger_handler import TriggerHandler  # noqa: E402
from deep.push.push_service import PushService  # noqa: E402

logging.getLogger("deep").addHandler(logging.NullHandler())
logging.getLogger("deep").propagate = False


class CollectingPush(PushService):
    def __init__(self):
        super().__init__(None, None)
        self.pushed = []

    def push_snapshot(self, snapshot):
        self.pushed.append(snapshot)


def job(results):
    value = 42
    results.append(value)  # TRACEPOINT


def application(trace_function=None):
    """Run a job on a low level thread, then report the threads of the process."""
    results = []
    done = _thread.allocate_lock()
    done.acquire()

    def run():
        if trace_function is not None:
            sys.settrace(trace_function)  # (what threading.settrace does for threading.Thread)
        try:
            job(results)
        finally:
            sys.settrace(None)
            done.release()

    _thread.start_new_thread(run, ())
    done.acquire()
    time.sleep(0.2)
    return results, sorted(thread.name for thread in threading.enumerate()), threading.active_count()


def main():
    plain = application()
    config = ConfigService({})
    config.resource = Resource.get_empty()
    config.plugins = [PythonPlugin(config=config)]
    push = CollectingPush()
    handler = TriggerHandler(config, push)
    source = inspect.getsource(job).splitlines()
    line = job.__code__.co_firstlineno + [i for i, t in enumerate(source) if "# TRACEPOINT" in t][0]
    action = LocationAction("tp-1", None, {}, LocationAction.ActionType.Snapshot)
    handler.new_config([Trigger(LineLocation(os.path.basename(__file__), line, Location.Position.START), [action])])
    traced = application(handler.trace_call)
    print("without agent:", plain)
    print("with agent   :", traced, "(%s snapshot)" % len(push.pushed))
    if traced != plain:
        print("DEFECT: after the snapshot the application sees an extra (dummy) thread in threading.enumerate(): "
              "PythonPlugin.decorate() called threading.current_thread() in a thread unknown to threading")
        return 1
    print("not reproduced")
    return 0


if __name__ == '__main__':
    sys.exit(main())
