"""
Observation 2 (unmodified tree): all metric processors are handed the SAME labels dict.

MetricActionContext._process_action builds one labels dict per metric and passes that object to every processor. A
processor that adds to (or removes from) the dict it is given - e.g. to attach an instance label before forwarding -
changes the labels every later processor is told: they are then not the labels "taken from static values or from
expressions evaluated in the frame" (C17, "any number of processors").
"""
import sys

sys.path.insert(0, __import__('os').path.dirname(__file__))
from obs_common import hit, Recorder  # noqa: E402
from deep.api.tracepoint.tracepoint_config import MetricDefinition, LabelExpression  # noqa: E402

metrics = [MetricDefinition("seen", "counter", [LabelExpression("kind", "static"),
                                                LabelExpression("value", expression="seen")])]
reports = hit(metrics, 3, [Recorder("first", add_label=True), Recorder("second")])
expected_labels = {'kind': 'static', 'value': '3'}
second = [r for r in reports if r[0] == 'second']
if len(second) != 1 or second[0][3] != expected_labels:
    print("DEFECT (unmodified tree): the second processor was given labels %s, the tracepoint defines %s "
          "(the first processor added a label to the dict it was given, and the dict is shared)"
          % (second[0][3] if second else None, expected_labels))
    sys.exit(1)
print("not reproduced")
