"""
Observation 4 (unmodified tree, minor): the 'expression failed' label value is unreachable with the real context.

MetricActionContext._process_metric sets a label to 'expression failed' when evaluating its expression raises. But
TriggerContext.evaluate_expression never raises, it RETURNS the exception, so the label silently becomes the text of
the exception (e.g. "name 'nope' is not defined") and nothing is logged. The unit test
test_metric_action_with_label_bad_expression only sees 'expression failed' because its mocked context raises.
(C17 does not say what a failing label expression yields, so this is an inconsistency rather than a violation.)
"""
import sys

sys.path.insert(0, __import__('os').path.dirname(__file__))
from obs_common import hit, Recorder  # noqa: E402
from deep.api.tracepoint.tracepoint_config import MetricDefinition, LabelExpression  # noqa: E402

reports = hit([MetricDefinition("seen", "counter", [LabelExpression("who", expression="nope")])], 3, [Recorder("rec")])
labels = reports[0][3] if reports else None
if labels != {'who': 'expression failed'}:
    print("INCONSISTENCY (unmodified tree): failing label expression 'nope' gave labels %s, "
          "the code (and its unit test) intend {'who': 'expression failed'}" % labels)
    sys.exit(1)
print("not reproduced")
