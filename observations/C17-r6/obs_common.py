"""Shared helper of the obsK.py scripts: run a real metric tracepoint hit and record what the processors are given."""
import logging
import sys

from deep.api.plugin.metric import MetricProcessor
from deep.api.tracepoint.constants import FIRE_COUNT, FIRE_PERIOD, SNAPSHOT, NO_COLLECT
from deep.api.tracepoint.trigger import build_trigger
from deep.config import ConfigService
from deep.processor.trigger_handler import TriggerHandler

logging.getLogger("deep").setLevel(logging.CRITICAL)

REPORTS = []


class Recorder(MetricProcessor):
    """Records every report; with add_label=True it also adds a label of its own to the dict it is given."""

    def __init__(self, name, add_label=False):
        super().__init__(name, None)
        self.add_label = add_label

    def _rec(self, op, name, labels, namespace, help_string, unit, value):
        REPORTS.append((self.name, op, name, dict(labels), namespace, help_string, unit, value))
        if self.add_label:
            labels['instance'] = 'added-by-' + self.name

    def counter(self, *args):
        self._rec('counter', *args)

    def gauge(self, *args):
        self._rec('gauge', *args)

    def histogram(self, *args):
        self._rec('histogram', *args)

    def summary(self, *args):
        self._rec('summary', *args)


class NoPush:
    def push_snapshot(self, snapshot):
        raise AssertionError("no snapshot expected")


def target(value):
    seen = value
    return seen


TARGET_LINE = target.__code__.co_firstlineno + 2


def hit(metrics, value, processors):
    """One hit of a metric tracepoint on 'return seen' with seen == value; returns the reports."""
    del REPORTS[:]
    config = ConfigService({})
    config.plugins = processors
    handler = TriggerHandler(config, NoPush())
    handler.new_config([build_trigger("tp", "obs_common.py", TARGET_LINE,
                                      {SNAPSHOT: NO_COLLECT, FIRE_COUNT: '-1', FIRE_PERIOD: '0'}, [], metrics)])
    sys.settrace(handler.trace_call)
    try:
        target(value)
    finally:
        sys.settrace(None)
    return list(REPORTS)
