"""
Observation 1 (unmodified tree): a metric expression whose result is NOT a number (a text, bytes) is not reported as 1.

C17: "... a value equal to the metric's expression evaluated as a number, or 1 when there is no expression or it is
not numeric". MetricActionContext._process_metric uses float(result), and float() parses text: the str '5' is
reported as 5.0, ' 7 ' as 7.0, '1_000' as 1000.0, b'5' as 5.0 and the texts 'nan' / 'inf' / 'infinity' as NaN / inf.
(None, a list, a complex number, an int too large for a float are reported as 1, as stated.)
"""
import math
import sys

sys.path.insert(0, __import__('os').path.dirname(__file__))
from obs_common import hit, Recorder  # noqa: E402
from deep.api.tracepoint.tracepoint_config import MetricDefinition  # noqa: E402

wrong = []
for value in ['5', ' 7 ', '1_000', b'5', 'nan', 'inf']:
    reports = hit([MetricDefinition("seen", "gauge", expression="seen")], value, [Recorder("rec")])
    reported = reports[0][-1] if len(reports) == 1 else reports
    if not (reported == 1 and not (isinstance(reported, float) and math.isnan(reported))):
        wrong.append("expression result %r (type %s, not numeric) was reported as %r, expected 1"
                     % (value, type(value).__name__, reported))

if wrong:
    print("DEFECT (unmodified tree): non-numeric expression results are parsed as numbers")
    for line in wrong:
        print(" - " + line)
    sys.exit(1)
print("not reproduced")
