"""
Observation 3 (unmodified tree, behind the processor interface): the shipped PrometheusPlugin does not store what it
is told.

Strictly C17 ends at the MetricProcessor interface, so this is adjacent to the property and not a violation of its
letter; it is what a user of the shipped processor sees of "type, labels, value":
 a) gauge() calls Gauge.inc(value): a gauge reported as 5 and then 7 reads 12, not 7.
 b) the collector cache is keyed by name and type only: a metric of the same name in another namespace is added to the
    collector of the first namespace (nsb_hits_total never exists, nsa_hits_total counts both).
 c) same name and type with different label keys: the report fails inside the plugin (logged) and is lost.
"""
import logging
import sys

import prometheus_client

from deep.api.plugin.metric.prometheus_metrics import PrometheusPlugin

logging.getLogger("deep").setLevel(logging.CRITICAL)
value = prometheus_client.REGISTRY.get_sample_value

plugin = PrometheusPlugin(None)
wrong = []
try:
    plugin.gauge("c17_obs_queue", {}, "deep", "help", None, 5.0)
    plugin.gauge("c17_obs_queue", {}, "deep", "help", None, 7.0)
    if value("deep_c17_obs_queue") != 7.0:
        wrong.append("a) gauge reported as 5.0 then 7.0 reads %s" % value("deep_c17_obs_queue"))

    plugin.counter("c17_obs_hits", {}, "nsa", "help", None, 1)
    plugin.counter("c17_obs_hits", {}, "nsb", "help", None, 1)
    if value("nsa_c17_obs_hits_total") != 1.0 or value("nsb_c17_obs_hits_total") != 1.0:
        wrong.append("b) one count in namespace nsa and one in nsb read nsa=%s nsb=%s"
                     % (value("nsa_c17_obs_hits_total"), value("nsb_c17_obs_hits_total")))

    plugin.counter("c17_obs_lab", {"a": "1"}, "deep", "help", None, 1)
    plugin.counter("c17_obs_lab", {"b": "1"}, "deep", "help", None, 1)
    if value("deep_c17_obs_lab_total", {"b": "1"}) != 1.0:
        wrong.append("c) the count with label b reads %s" % value("deep_c17_obs_lab_total", {"b": "1"}))
finally:
    plugin.clear()

if wrong:
    print("DEFECT (unmodified tree, PrometheusPlugin):")
    for line in wrong:
        print(" - " + line)
    sys.exit(1)
print("not reproduced")
