"""
obs1 (unmodified tree): a value whose processing fails half way leaves an id in the identity cache that has no entry in
the variable table; a later reference to the same object becomes a reference to nothing.

variable_processor.variable_to_string() treats every type whose NAME is list/tuple/set/frozenset as a collection and
calls len() on it, outside of any try/except. process_variable() has already allocated the id for the value
(new_var_id) at that point, but not yet stored the Variable (append_variable). For a user type that merely has such a
name (here: a class called 'set', as e.g. a DSL or ORM might define) len() raises TypeError:
  - the watch that evaluates to the object reports the error (fine), but
  - the cache now maps id(object) -> N with no table entry N, so the next watch that reaches the same object
    ('[RULES]') gets a child reference to N, which is not in the snapshot's table.
(If such an object is a local of the frame the whole snapshot is lost instead.)
"""
import faulthandler
import logging
import os
import sys

faulthandler.dump_traceback_later(60, exit=True)
logging.disable(logging.CRITICAL)

from deep.api.resource import Resource  # noqa: E402
from deep.api.tracepoint.constants import WATCHES  # noqa: E402
from deep.api.tracepoint.trigger import Location, LocationAction, LineLocation, Trigger  # noqa: E402
from deep.config import ConfigService  # noqa: E402
from deep.processor.trigger_handler import TriggerHandler  # noqa: E402
from deep.push.push_service import PushService  # noqa: E402


class Push(PushService):
    def __init__(self):
        super().__init__(None, None)
        self.pushed = []

    def push_snapshot(self, snapshot):
        self.pushed.append(snapshot)


class Config(ConfigService):
    @property
    def resource(self):
        return Resource.get_empty()


class set:  # noqa: A001 - a user type that happens to be called like a builtin (it has no __len__)
    def __init__(self, **values):
        self.values = values


RULES = set(colour='red')


def target(n):
    return n + 1  # TRACEPOINT


LINE = [n + 1 for n, text in enumerate(open(__file__).read().splitlines()) if text.endswith('# TRACEPOINT')][0]


def main():
    push = Push()
    handler = TriggerHandler(Config({}), push)
    handler.new_config([Trigger(LineLocation(os.path.basename(__file__), LINE, Location.Position.START), [
        LocationAction("obs1", None, {WATCHES: ['RULES', '[RULES]']}, LocationAction.ActionType.Snapshot)])])
    sys.settrace(handler.trace_call)
    try:
        target(1)
    finally:
        sys.settrace(None)

    if len(push.pushed) != 1:
        print("expected one snapshot, got %d" % len(push.pushed))
        return 1
    snap = push.pushed[0]
    table = snap.var_lookup
    problems = []
    for frame in snap.frames:
        for ref in frame.variables:
            if ref.vid not in table:
                problems.append("frame variable %s -> %r" % (ref.name, ref.vid))
    for key, variable in table.items():
        for ref in variable.children:
            if ref.vid not in table:
                problems.append("child '%s' of entry %s (%s %s) -> id %r which is not in the table (ids: %s)" % (
                    ref.name, key, variable.type, variable.value, ref.vid, sorted(table)))
    for watch in snap.watches:
        print("watch %-9s -> %s" % (watch.expression, watch.result.vid if watch.result else 'error: %s' % watch.error))
        if watch.result is not None and watch.result.vid not in table:
            problems.append("watch %s -> %r" % (watch.expression, watch.result.vid))
    if problems:
        print("DEFECT (unmodified tree): the snapshot has references that do not resolve:")
        for problem in problems:
            print("  - " + problem)
        return 1
    print("ok: all references resolve")
    return 0


if __name__ == '__main__':
    sys.exit(main())
