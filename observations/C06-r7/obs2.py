"""
obs2 - UNMODIFIED tree: a value whose __str__ returns an instance of a str subclass with a failing __format__ costs
the whole snapshot when the tracepoint has a log message that interpolates it.

VariableSetProcessor.__log_str() returns str(value) as it is (variable_to_string() normalises with str.__str__, the log
text does not). string.Formatter.format_field() then calls format(log_str, spec), i.e. the subclass' __format__, from
FormatExtractor.vformat() in LogActionContext.process_log(), which SnapshotActionContext._process_action() calls without
a guard: the exception ends the action ("Cannot process action"), no snapshot is attached or sent.
(Related, but driven by the tracepoint and not by the object graph: a format spec the text does not support, e.g.
'{count:d}', or an unbalanced '{' in the log message lose the snapshot the same way.)
"""
import faulthandler
import inspect
import os
import sys

faulthandler.dump_traceback_later(60, exit=True)

from deep.api.resource import Resource  # noqa: E402
from deep.api.tracepoint.constants import LOG_MSG  # noqa: E402,F401
from deep.api.tracepoint.trigger import Location, LocationAction, LineLocation, Trigger  # noqa: E402
from deep.config import ConfigService  # noqa: E402
from deep.processor.trigger_handler import TriggerHandler  # noqa: E402
from deep.push import convert_snapshot  # noqa: E402,F401
from deep.push.push_service import PushService  # noqa: E402


class CollectingPush(PushService):
    def __init__(self):
        super().__init__(None, None)
        self.pushed = []

    def push_snapshot(self, snapshot):
        self.pushed.append(snapshot)


class Config(ConfigService):
    @property
    def resource(self):
        return Resource.get_empty()


def line_of(func, marker):
    lines, start = inspect.getsourcelines(func)
    for offset, text in enumerate(lines):
        if marker in text:
            return start + offset
    raise AssertionError("marker not found")


def run_with_snapshot_tracepoint(func, line, config=None):
    """Run func under the real trace function with one snapshot tracepoint on the line, return the pushed snapshots."""
    push = CollectingPush()
    handler = TriggerHandler(Config({}), push)
    location = LineLocation(os.path.basename(__file__), line, Location.Position.START)
    handler.new_config([Trigger(location, [
        LocationAction("tp-obs", None, config or {}, LocationAction.ActionType.Snapshot)])])
    sys.settrace(handler.trace_call)
    try:
        func()
    finally:
        sys.settrace(None)
    return push.pushed


class Shouting(str):
    def __format__(self, spec):
        raise RuntimeError("cannot format")


class Thing:
    def __str__(self):
        return Shouting("thing")


def target():
    thing = Thing()
    count = 2
    return thing, count  # TRACEPOINT


def main():
    line = line_of(target, "# TRACEPOINT")
    plain = run_with_snapshot_tracepoint(target, line)
    with_log = run_with_snapshot_tracepoint(target, line, {LOG_MSG: "thing is {thing}"})
    with_spec = run_with_snapshot_tracepoint(target, line, {LOG_MSG: "count is {count:d}"})
    print("snapshots without log message: %d, with log message '{thing}': %d, with log message '{count:d}': %d"
          % (len(plain), len(with_log), len(with_spec)))
    if len(plain) == 1 and len(with_log) == 0:
        print("DEFECT: the value is collected fine on its own (value %r), but interpolating it into the log message of "
              "the tracepoint loses the whole snapshot"
              % [plain[0].var_lookup[v.vid].value for v in plain[0].frames[0].variables if v.name == 'thing'])
        return 1
    print("ok")
    return 0


if __name__ == '__main__':
    sys.exit(main())
