"""
obs3 - UNMODIFIED tree: a tracepoint on a line of a class body whose metaclass provides a namespace that is not a dict
(type.__prepare__ may return any mapping) produces no snapshot.

In such a frame frame.f_locals IS the namespace object. FrameCollector._process_frame() calls f_locals.get('self', None)
and dict(f_locals) on it without a guard (AttributeError: 'Namespace' object has no attribute 'get'), so the collection,
and with it the snapshot, is lost. (LogActionContext.process_log() does dict-construction from it as well.)
"""
import faulthandler
import inspect
import os
import sys

faulthandler.dump_traceback_later(60, exit=True)

from deep.api.resource import Resource  # noqa: E402
from deep.api.tracepoint.constants import LOG_MSG  # noqa: E402,F401
from deep.api.tracepoint.trigger import Location, LocationAction, LineLocation, Trigger  # noqa: E402
from deep.config import ConfigService  # noqa: E402
from deep.processor.trigger_handler import TriggerHandler  # noqa: E402
from deep.push import convert_snapshot  # noqa: E402,F401
from deep.push.push_service import PushService  # noqa: E402


class CollectingPush(PushService):
    def __init__(self):
        super().__init__(None, None)
        self.pushed = []

    def push_snapshot(self, snapshot):
        self.pushed.append(snapshot)


class Config(ConfigService):
    @property
    def resource(self):
        return Resource.get_empty()


def line_of(func, marker):
    lines, start = inspect.getsourcelines(func)
    for offset, text in enumerate(lines):
        if marker in text:
            return start + offset
    raise AssertionError("marker not found")


def run_with_snapshot_tracepoint(func, line, config=None):
    """Run func under the real trace function with one snapshot tracepoint on the line, return the pushed snapshots."""
    push = CollectingPush()
    handler = TriggerHandler(Config({}), push)
    location = LineLocation(os.path.basename(__file__), line, Location.Position.START)
    handler.new_config([Trigger(location, [
        LocationAction("tp-obs", None, config or {}, LocationAction.ActionType.Snapshot)])])
    sys.settrace(handler.trace_call)
    try:
        func()
    finally:
        sys.settrace(None)
    return push.pushed


class Namespace:
    """What the compiler needs from a class namespace: item access."""

    def __init__(self):
        self.entries = {}

    def __getitem__(self, key):
        return self.entries[key]

    def __setitem__(self, key, value):
        self.entries[key] = value

    def __delitem__(self, key):
        del self.entries[key]


class Meta(type):
    @classmethod
    def __prepare__(mcs, name, bases):
        return Namespace()

    def __new__(mcs, name, bases, namespace):
        return super().__new__(mcs, name, bases, dict(namespace.entries))


def target():
    class Settings(metaclass=Meta):
        retries = 3
        timeout = retries * 10  # TRACEPOINT

    return Settings


def main():
    pushed = run_with_snapshot_tracepoint(target, line_of(target, "# TRACEPOINT"))
    if len(pushed) == 0:
        print("DEFECT: no snapshot for a tracepoint in a class body that is executed in a non-dict namespace "
              "(frame.f_locals is the namespace object, which has no get() / cannot be copied with dict())")
        return 1
    print("ok: %d snapshot, variables %s" % (len(pushed), sorted(v.name for v in pushed[0].frames[0].variables)))
    return 0


if __name__ == '__main__':
    sys.exit(main())
