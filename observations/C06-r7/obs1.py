"""
obs1 - UNMODIFIED tree: a 'self' whose class name is not text costs the whole snapshot at conversion time.

FrameCollector._process_frame takes  _self.__class__.__name__  (guarded against raising) and stores whatever it gets as
StackFrame.class_name. It is only turned into text in deep.push.__text() with a plain str(value), on the task thread,
inside convert_snapshot()'s  except Exception: return None . A 'self' that answers __class__ itself (proxies, mocks do)
with something whose __name__ has a failing __str__ therefore makes convert_snapshot() return None and
PushService._push_task silently drops the snapshot - all other variables were collected fine.
"""
import faulthandler
import inspect
import os
import sys

faulthandler.dump_traceback_later(60, exit=True)

from deep.api.resource import Resource  # noqa: E402
from deep.api.tracepoint.constants import LOG_MSG  # noqa: E402,F401
from deep.api.tracepoint.trigger import Location, LocationAction, LineLocation, Trigger  # noqa: E402
from deep.config import ConfigService  # noqa: E402
from deep.processor.trigger_handler import TriggerHandler  # noqa: E402
from deep.push import convert_snapshot  # noqa: E402,F401
from deep.push.push_service import PushService  # noqa: E402


class CollectingPush(PushService):
    def __init__(self):
        super().__init__(None, None)
        self.pushed = []

    def push_snapshot(self, snapshot):
        self.pushed.append(snapshot)


class Config(ConfigService):
    @property
    def resource(self):
        return Resource.get_empty()


def line_of(func, marker):
    lines, start = inspect.getsourcelines(func)
    for offset, text in enumerate(lines):
        if marker in text:
            return start + offset
    raise AssertionError("marker not found")


def run_with_snapshot_tracepoint(func, line, config=None):
    """Run func under the real trace function with one snapshot tracepoint on the line, return the pushed snapshots."""
    push = CollectingPush()
    handler = TriggerHandler(Config({}), push)
    location = LineLocation(os.path.basename(__file__), line, Location.Position.START)
    handler.new_config([Trigger(location, [
        LocationAction("tp-obs", None, config or {}, LocationAction.ActionType.Snapshot)])])
    sys.settrace(handler.trace_call)
    try:
        func()
    finally:
        sys.settrace(None)
    return push.pushed


class Unprintable:
    def __str__(self):
        raise RuntimeError("no text for you")

    __repr__ = __str__


class FakeClass:
    pass


FAKE = FakeClass()
FAKE.__name__ = Unprintable()


class Proxy:
    @property
    def __class__(self):
        return FAKE

    def method(self):
        answer = 42
        return answer  # TRACEPOINT


def main():
    proxy = Proxy()
    pushed = run_with_snapshot_tracepoint(proxy.method, line_of(Proxy.method, "# TRACEPOINT"))
    if len(pushed) != 1:
        print("unexpected: %d snapshots produced" % len(pushed))
        return 1
    snapshot = pushed[0]
    names = sorted(v.name for v in snapshot.frames[0].variables)
    wire = convert_snapshot(snapshot)  # what PushService._push_task does before sending
    if wire is None:
        print("DEFECT: snapshot with frame variables %s was collected, but convert_snapshot() returned None "
              "(class_name is a %s, not text) - PushService._push_task drops it without sending"
              % (names, type(snapshot.frames[0].class_name).__name__))
        return 1
    print("ok: snapshot converted, class_name=%r" % wire.frames[0].class_name)
    return 0


if __name__ == '__main__':
    sys.exit(main())
