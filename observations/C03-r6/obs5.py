"""
Observation 5 (unmodified tree): pending end-of-method work of one agent is executed by ANOTHER agent instance, at a
return event of a program that has no matching tracepoint location.

deep.thread_local.ThreadLocal keeps its values in a CLASS attribute (ThreadLocal.__store = {}), keyed by the thread id
only. Every ThreadLocal instance - so every TriggerHandler._callbacks - shares that one dictionary. A handler whose
thread still has a pending callback (a method span to close, a deferred 'capture' snapshot) when tracing stops for
that thread leaves it there: TriggerHandler.shutdown() calls sys.settrace(old) for the calling thread, so when the
agent is shut down from inside a traced function (an admin endpoint, a signal handler, a test tear-down) the 'return'
of that function is never seen.

A second agent started later in the same process (restart with a new configuration) finds the stale entry for the
thread: at the next 'return' of a function with that name it completes the first agent's snapshot and pushes it -
although its own configuration only has a tracepoint on a line that is never executed. (The same stale entry is picked
up by a new thread that gets the id of a finished one.)

Run: cd /tmp/seed6_C03 && PYTHONPATH=src:tests /venv/bin/python /tmp/seed6_C03_out/obs5.py
Exit 1 + explanation when the defect is present.
"""
import faulthandler
import importlib.util
import os
import shutil
import sys
import tempfile
import threading

faulthandler.dump_traceback_later(60, exit=True)

from deep.api.resource import Resource  # noqa: E402
from deep.api.tracepoint.constants import FIRE_COUNT, FIRE_PERIOD, STAGE, METHOD_CAPTURE  # noqa: E402
from deep.api.tracepoint.trigger import Trigger, FunctionLocation, LineLocation, Location, LocationAction  # noqa: E402
from deep.config import ConfigService  # noqa: E402
from deep.processor.trigger_handler import TriggerHandler  # noqa: E402
from deep.push.push_service import PushService  # noqa: E402

SOURCE = '''def job(hook, result):
    hook()
    return result


def never_called():
    return 42           # line 7: never executed
'''


class RecordingPush(PushService):
    def __init__(self, label):
        super().__init__(None, None)
        self.label = label
        self.pushed = []

    def push_snapshot(self, snapshot):
        self.pushed.append((snapshot.tracepoint.id, [w.expression for w in snapshot.watches]))


def new_agent(label):
    config = ConfigService({'NO_TRACE': False})
    config.resource = Resource.get_empty()
    push = RecordingPush(label)
    return TriggerHandler(config, push), push


def main():
    tmp = tempfile.mkdtemp(prefix="c03_obs5_")
    old_sys, old_thr = sys.gettrace(), threading.gettrace()
    try:
        name = "c03_obs5_target.py"
        path = os.path.join(tmp, name)
        with open(path, "w") as f:
            f.write(SOURCE)
        spec = importlib.util.spec_from_file_location("c03_obs5_target", path)
        target = importlib.util.module_from_spec(spec)
        spec.loader.exec_module(target)

        # agent 1: method tracepoint (capture) on job(); it is shut down while job() is running
        first, first_push = new_agent("first")
        first.new_config([Trigger(FunctionLocation(name, "job", Location.Position.START), [
            LocationAction("tp-of-first-agent", None, {STAGE: METHOD_CAPTURE, FIRE_COUNT: '1'},
                           LocationAction.ActionType.Snapshot)])])
        first.start()
        target.job(first.shutdown, "first run")

        # agent 2: a fresh handler, its only tracepoint is on a line that is never executed
        second, second_push = new_agent("second")
        second.new_config([Trigger(LineLocation(name, 7, Location.Position.START), [
            LocationAction("tp-idle", None, {FIRE_COUNT: '-1', FIRE_PERIOD: '0'}, LocationAction.ActionType.Snapshot)])])
        second.start()
        target.job(lambda: None, "second run")
        second.shutdown()
    finally:
        sys.settrace(old_sys)
        threading.settrace(old_thr)
        shutil.rmtree(tmp, ignore_errors=True)

    print("pushed by the first agent :", first_push.pushed)
    print("pushed by the second agent:", second_push.pushed)
    if second_push.pushed:
        print("DEFECT: the second agent has no tracepoint on any executed location, but it pushed a snapshot (for a"
              " tracepoint of the first agent) when job() returned")
        return 1
    print("ok")
    return 0


if __name__ == '__main__':
    sys.exit(main())
