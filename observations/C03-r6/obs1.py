"""
Observation 1 (unmodified tree): a line tracepoint does not act in a function that was ENTERED while no tracepoint
was configured.

TriggerHandler.__trace_call returns None when the configuration is empty. For a 'call' event that tells Python not to
trace the new frame at all (no local trace function), and that decision is never revisited: when a tracepoint arrives
while the function is still running (a main loop, a worker's run(), a request handler that registers a tracepoint
itself), execution reaches the configured line of the configured file and nothing happens. Frames entered after the
configuration arrived are fine - so the same line acts or does not act depending on when its function was entered.

Run: cd /tmp/seed6_C03 && PYTHONPATH=src:tests /venv/bin/python /tmp/seed6_C03_out/obs1.py
Exit 1 + explanation when the defect is present.
"""
import faulthandler
import importlib.util
import os
import shutil
import sys
import tempfile

faulthandler.dump_traceback_later(60, exit=True)

from deep.api.resource import Resource  # noqa: E402
from deep.api.tracepoint.constants import FIRE_COUNT, FIRE_PERIOD  # noqa: E402
from deep.api.tracepoint.trigger import Trigger, LineLocation, Location, LocationAction  # noqa: E402
from deep.config import ConfigService  # noqa: E402
from deep.processor.trigger_handler import TriggerHandler  # noqa: E402
from deep.push.push_service import PushService  # noqa: E402

SOURCE = '''def main_loop(install):
    done = 0
    for i in range(3):
        if i == 1:
            install()       # the tracepoint on line 6 is configured while main_loop() is running
        done += 1           # line 6
    return done
'''


class RecordingPush(PushService):
    def __init__(self):
        super().__init__(None, None)
        self.pushed = []

    def push_snapshot(self, snapshot):
        self.pushed.append(snapshot.frames[0].line_number)


def main():
    tmp = tempfile.mkdtemp(prefix="c03_obs1_")
    try:
        name = "c03_obs1_target.py"
        path = os.path.join(tmp, name)
        with open(path, "w") as f:
            f.write(SOURCE)
        spec = importlib.util.spec_from_file_location("c03_obs1_target", path)
        target = importlib.util.module_from_spec(spec)
        spec.loader.exec_module(target)

        config = ConfigService({})
        config.resource = Resource.get_empty()
        push = RecordingPush()
        handler = TriggerHandler(config, push)
        trigger = Trigger(LineLocation(name, 6, Location.Position.START), [
            LocationAction("tp", None, {FIRE_COUNT: '-1', FIRE_PERIOD: '0'}, LocationAction.ActionType.Snapshot)])

        old = sys.gettrace()
        sys.settrace(handler.trace_call)
        try:
            # run 1: the function is entered with an empty configuration, the tracepoint arrives in iteration 1
            target.main_loop(lambda: handler.new_config([trigger]))
            first = list(push.pushed)
            del push.pushed[:]
            # run 2: same program, the configuration is already there when the function is entered
            target.main_loop(lambda: None)
            second = list(push.pushed)
        finally:
            sys.settrace(old)
    finally:
        shutil.rmtree(tmp, ignore_errors=True)

    print("run 1 (tracepoint installed while main_loop() runs): line 6 reached 2 times after that, actions: %s" % first)
    print("run 2 (tracepoint installed before main_loop() is entered): line 6 reached 3 times, actions: %s" % second)
    if len(first) != 2:
        print("DEFECT: execution reached %s:6 twice with the tracepoint installed, the tracepoint acted %d times"
              % (name, len(first)))
        return 1
    print("ok")
    return 0


if __name__ == '__main__':
    sys.exit(main())
