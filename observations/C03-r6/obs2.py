"""
Observation 2 (unmodified tree): one tracepoint silences every other tracepoint of its file.

A 'method span' tracepoint that carries no method_name (build_trigger(..., {'span': 'method'}), a shape the project's
own tests build) becomes a FunctionLocation without a name. Its at_location() calls inspect.getsourcelines(frame) on
EVERY event in that file. When the source text is not available (a sourceless .pyc deployment, generated code compiled
under a file name, a file that was removed or replaced after import) that raises OSError.
TriggerHandler.__actions_for_location has no guard per trigger, so the error leaves the loop: the ordinary line
tracepoint (and any named method tracepoint) configured for the same file never acts, on any event, in any order of the
configuration. The tracepoints of a location do not act independently of the others.

Run: cd /tmp/seed6_C03 && PYTHONPATH=src:tests /venv/bin/python /tmp/seed6_C03_out/obs2.py
Exit 1 + explanation when the defect is present.
"""
import faulthandler
import logging
import sys

faulthandler.dump_traceback_later(60, exit=True)
logging.getLogger("deep").addHandler(logging.NullHandler())
logging.getLogger("deep").propagate = False

from deep.api.resource import Resource  # noqa: E402
from deep.api.tracepoint.constants import FIRE_COUNT, FIRE_PERIOD, SPAN, METHOD, SNAPSHOT, NO_COLLECT, \
    METHOD_NAME  # noqa: E402
from deep.api.tracepoint.trigger import build_trigger  # noqa: E402
from deep.config import ConfigService  # noqa: E402
from deep.processor.trigger_handler import TriggerHandler  # noqa: E402
from deep.push.push_service import PushService  # noqa: E402

NAME = "c03_obs2_generated.py"
SOURCE = '''def work(n):
    total = 0
    total += n          # line 3
    return total
'''


class RecordingPush(PushService):
    def __init__(self):
        super().__init__(None, None)
        self.pushed = []

    def push_snapshot(self, snapshot):
        self.pushed.append((snapshot.tracepoint.id, snapshot.frames[0].line_number))


def run(triggers):
    namespace = {}
    exec(compile(SOURCE, "/opt/app/" + NAME, "exec"), namespace)
    config = ConfigService({})
    config.resource = Resource.get_empty()
    push = RecordingPush()
    handler = TriggerHandler(config, push)
    handler.new_config(triggers)
    old = sys.gettrace()
    sys.settrace(handler.trace_call)
    try:
        namespace['work'](1)
    finally:
        sys.settrace(old)
    return push.pushed


def main():
    unlimited = {FIRE_COUNT: '-1', FIRE_PERIOD: '0'}

    def line_tp():
        return build_trigger("tp-line", NAME, 3, dict(unlimited), [], [])

    def named_method_tp():
        return build_trigger("tp-method", NAME, -1, dict(unlimited, **{METHOD_NAME: "work"}), [], [])

    def nameless_span_tp():
        return build_trigger("tp-span", NAME, 2, {SPAN: METHOD, SNAPSHOT: NO_COLLECT}, [], [])

    alone = run([line_tp(), named_method_tp()])
    together = run([line_tp(), named_method_tp(), nameless_span_tp()])
    print("line + method tracepoint alone                     :", alone)
    print("same two, plus a method span without a method name :", together)
    if sorted(alone) == [("tp-line", 3), ("tp-method", 1)] and together != alone:
        print("DEFECT: the line tracepoint on %s:3 and the method tracepoint on work() stopped acting because of another"
              " tracepoint in the same file (its at_location() raises OSError: could not get source code)" % NAME)
        return 1
    print("ok")
    return 0


if __name__ == '__main__':
    sys.exit(main())
