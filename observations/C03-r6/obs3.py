"""
Observation 3 (unmodified tree): the agent traces its own code, a tracepoint that matches one of its own lines by file
name can dead-lock the thread that reaches it (and, after that, every thread that reaches any tracepoint).

Locations are matched by the base name of the file, so a tracepoint for an application's '__init__.py' also matches
deep/task/__init__.py (and the other __init__.py / utils.py / ... of the agent): the agent's code runs in threads that
are traced like any other (application threads calling Deep.register_tracepoint(), the poll timer thread and the task
pool threads, which are started after installation).

Lines 63-67 of deep/task/__init__.py run inside 'with self._accept_lock' (a plain threading.Lock) of
TaskHandler.submit_task(). A line tracepoint there acts while the lock is held; its snapshot is handed to
PushService.push_snapshot() -> TaskHandler.submit_task() -> 'with self._accept_lock' again: the thread blocks for good,
still holding the lock. From then on every push of a snapshot (any tracepoint, any thread - the push happens inside the
trace function of the application thread) and every configuration update blocks as well.

Execution reached line 64 of a file with the configured name and no action ever happens; the application hangs.

Run: cd /tmp/seed6_C03 && PYTHONPATH=src:tests timeout 120 /venv/bin/python /tmp/seed6_C03_out/obs3.py
Exit 1 + explanation when the defect is present.
"""
import faulthandler
import os
import sys
import threading

faulthandler.dump_traceback_later(90, exit=True)

from deep.api.resource import Resource  # noqa: E402
from deep.api.tracepoint.constants import FIRE_COUNT, FIRE_PERIOD  # noqa: E402
from deep.config import ConfigService  # noqa: E402
from deep.processor.trigger_handler import TriggerHandler  # noqa: E402
from deep.push.push_service import PushService  # noqa: E402
from deep.task import TaskHandler  # noqa: E402
import deep.task  # noqa: E402

LINE = 64


class RecordingPush(PushService):
    """The real push service (push_snapshot -> task handler), only the network part is replaced."""

    pushed = []

    def _push_task(self, snapshot):
        self.pushed.append((os.path.basename(snapshot.frames[0].file_name), snapshot.frames[0].line_number))


def main():
    with open(deep.task.__file__) as f:
        text = f.read().splitlines()[LINE - 1]
    print("deep/task/__init__.py:%d is: %s" % (LINE, text.strip()))

    config = ConfigService({})
    config.resource = Resource.get_empty()
    tasks = TaskHandler()
    config.set_task_handler(tasks)
    push = RecordingPush(None, tasks)
    handler = TriggerHandler(config, push)

    # the user asks for a tracepoint on line 64 of (their) __init__.py
    config.tracepoints.add_custom("__init__.py", LINE, {FIRE_COUNT: '1', FIRE_PERIOD: '0'}, [], [])
    while len(handler._tp_config) == 0:
        pass

    finished = threading.Event()

    def application_thread():
        # an application thread (traced, like every thread started after installation) registers one more tracepoint;
        # the poll timer thread does the same call chain whenever the service sends an update
        sys.settrace(handler.trace_call)
        config.tracepoints.add_custom("some_app_file.py", 10, {}, [], [])
        sys.settrace(None)
        finished.set()

    thread = threading.Thread(target=application_thread, daemon=True)
    thread.start()
    thread.join(10)

    if not finished.is_set():
        frame = sys._current_frames().get(thread.ident)
        where = []
        while frame is not None:
            where.append("%s:%d %s" % (os.path.basename(frame.f_code.co_filename), frame.f_lineno, frame.f_code.co_name))
            frame = frame.f_back
        print("DEFECT: the application thread has been blocked for 10 s (snapshots pushed so far: %s). Its stack:"
              % push.pushed)
        for entry in where[:12]:
            print("    " + entry)
        print("accept lock still held: %s" % tasks._accept_lock.locked())
        sys.stdout.flush()
        os._exit(1)
    print("ok, pushed:", push.pushed)
    return 0


if __name__ == '__main__':
    sys.exit(main())
