"""
Observation 4 (unmodified tree): a method tracepoint acts at events that are not the entry of a function of that name.

FunctionLocation.at_location() treats every 'call' trace event whose code name matches as "the function is entered".
Python also delivers 'call'
  (a) every time a generator (or coroutine) is RESUMED - one entry of produce() with 3 yields gives 4 'call' events,
  (b) when a class body runs - 'class produce:' is a code object named 'produce'.
So a method tracepoint on 'produce' acts 4 times for one entered call of the generator function, and acts when a class
of that name is defined although no function of that name exists.

Run: cd /tmp/seed6_C03 && PYTHONPATH=src:tests /venv/bin/python /tmp/seed6_C03_out/obs4.py
Exit 1 + explanation when the behaviour is present.
"""
import faulthandler
import importlib.util
import os
import shutil
import sys
import tempfile

faulthandler.dump_traceback_later(60, exit=True)

from deep.api.resource import Resource  # noqa: E402
from deep.api.tracepoint.constants import FIRE_COUNT, FIRE_PERIOD, METHOD_NAME  # noqa: E402
from deep.api.tracepoint.trigger import build_trigger  # noqa: E402
from deep.config import ConfigService  # noqa: E402
from deep.processor.trigger_handler import TriggerHandler  # noqa: E402
from deep.push.push_service import PushService  # noqa: E402

GENERATOR = '''def produce():
    yield 1
    yield 2
    yield 3


def consume():
    return list(produce())      # produce() is entered exactly once
'''

CLASS_BODY = '''def define():
    class produce:              # no function called 'produce' anywhere
        x = 1
    return produce
'''


class RecordingPush(PushService):
    def __init__(self):
        super().__init__(None, None)
        self.pushed = []

    def push_snapshot(self, snapshot):
        self.pushed.append(snapshot.frames[0].line_number)


def load(tmp, name, source):
    path = os.path.join(tmp, name)
    with open(path, "w") as f:
        f.write(source)
    spec = importlib.util.spec_from_file_location(name[:-3], path)
    module = importlib.util.module_from_spec(spec)
    spec.loader.exec_module(module)
    return module


def run(name, func):
    config = ConfigService({})
    config.resource = Resource.get_empty()
    push = RecordingPush()
    handler = TriggerHandler(config, push)
    handler.new_config([build_trigger("tp", name, -1, {METHOD_NAME: "produce", FIRE_COUNT: '-1', FIRE_PERIOD: '0'},
                                      [], [])])
    old = sys.gettrace()
    sys.settrace(handler.trace_call)
    try:
        func()
    finally:
        sys.settrace(old)
    return push.pushed


def main():
    tmp = tempfile.mkdtemp(prefix="c03_obs4_")
    try:
        gen = load(tmp, "c03_obs4_gen.py", GENERATOR)
        cls = load(tmp, "c03_obs4_cls.py", CLASS_BODY)
        gen_actions = run("c03_obs4_gen.py", gen.consume)
        cls_actions = run("c03_obs4_cls.py", cls.define)
    finally:
        shutil.rmtree(tmp, ignore_errors=True)

    bad = False
    print("generator function entered once, method tracepoint acted at lines:", gen_actions)
    if len(gen_actions) != 1:
        print("DEFECT (a): %d actions for one entry of produce() (one per resumption)" % len(gen_actions))
        bad = True
    print("class body named like the method, no such function, actions at lines:", cls_actions)
    if len(cls_actions) != 0:
        print("DEFECT (b): the method tracepoint acted although no function 'produce' was entered")
        bad = True
    return 1 if bad else 0


if __name__ == '__main__':
    sys.exit(main())
