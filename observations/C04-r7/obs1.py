"""
obs1 (unmodified tree): a hit whose condition does NOT hold takes away the hit of another thread whose condition holds.

The limits are checked (and the hit claimed) before the condition is evaluated, and the condition is evaluated outside
the lock. While thread A evaluates its condition (which turns out false), thread B reaches the tracepoint: the limits
allow B's hit (the tracepoint never fired) and B's condition holds, but B is refused because of A's claim. A then gives
its claim back. Nobody collected.

exit 1 + explanation when the defect is present, exit 0 when B collected.
"""
import inspect
import os
import sys
import threading

from deep.api.plugin import TracepointLogger
from deep.api.resource import Resource
from deep.api.tracepoint.constants import LOG_MSG, FIRE_COUNT, FIRE_PERIOD
from deep.api.tracepoint.trigger import LineLocation, Location, LocationAction, Trigger
from deep.config import ConfigService
from deep.processor.trigger_handler import TriggerHandler
from deep.push.push_service import PushService


class Logger(TracepointLogger):
    def __init__(self):
        self.logged = []

    def log_tracepoint(self, log_msg: str, tp_id: str, ctx_id: str):
        self.logged.append((tp_id, log_msg))


class Config(ConfigService):
    def __init__(self):
        super().__init__({})
        self.logger = Logger()

    @property
    def tracepoint_logger(self):
        return self.logger

    @property
    def resource(self):
        return Resource.get_empty()


a_is_evaluating = threading.Event()
b_has_been_there = threading.Event()


def wanted(name):
    """The condition of the tracepoint: holds for 'B' only; slow for 'A'."""
    if name == 'A':
        a_is_evaluating.set()
        b_has_been_there.wait(5)
        return False
    return True


def target(name):
    who = name  # TRACEPOINT
    return who


def line_of(func, marker):
    lines, start = inspect.getsourcelines(func)
    for idx, text in enumerate(lines):
        if marker in text:
            return start + idx
    raise AssertionError(marker)


def main():
    config = Config()
    handler = TriggerHandler(config, PushService(None, None))
    file = os.path.basename(__file__)
    action = LocationAction("tp", "wanted(name)", {LOG_MSG: "hit {name}", FIRE_COUNT: '1', FIRE_PERIOD: '1000'},
                            LocationAction.ActionType.Log)
    handler.new_config([Trigger(LineLocation(file, line_of(target, "TRACEPOINT"), Location.Position.START), [action])])

    def run(name, done):
        sys.settrace(handler.trace_call)
        try:
            target(name)
        finally:
            sys.settrace(None)
            done.set()

    thread_a = threading.Thread(target=run, args=("A", threading.Event()), daemon=True)
    thread_a.start()
    if not a_is_evaluating.wait(5):
        print("the tracepoint was never hit (script problem)")
        return 2
    thread_b = threading.Thread(target=run, args=("B", b_has_been_there), daemon=True)
    thread_b.start()
    thread_b.join(10)
    thread_a.join(10)

    logs = [log for _, log in config.logger.logged]
    print("collected:", logs)
    if logs != ["[deep] hit B"]:
        print("DEFECT: fire_count 1, fire_period 1000, never fired; thread B hit the tracepoint with a condition that "
              "holds, but did not collect, because thread A (condition false) was still evaluating its condition")
        return 1
    print("ok")
    return 0


if __name__ == '__main__':
    sys.exit(main())
