"""
obs3 (unmodified tree): the fire count (and last fire) of a tracepoint is forgotten whenever the poll service delivers
a new tracepoint list, although the tracepoint itself is unchanged and stays installed.

Every UPDATE poll response is converted with convert_response -> build_trigger, which creates new LocationAction
objects (new TracepointExecutionStats) for ALL tracepoints of the response, also for those that were already installed.
So adding (or removing) an unrelated tracepoint on the server lets a fire_count=1 tracepoint collect again.
(Tracepoints registered in code with Deep.register_tracepoint keep their Trigger object and are not affected.)

exit 1 + explanation when the defect is present.
"""
import inspect
import os
import sys
import threading

# noinspection PyUnresolvedReferences
from deepproto.proto.tracepoint.v1.tracepoint_pb2 import TracePointConfig

from deep.api.plugin import TracepointLogger
from deep.api.resource import Resource
from deep.config import ConfigService
from deep.grpc import convert_response
from deep.processor.trigger_handler import TriggerHandler
from deep.push.push_service import PushService
from deep.task import TaskHandler


class Config(ConfigService):
    def __init__(self):
        super().__init__({})

    @property
    def tracepoint_logger(self):
        return None

    @property
    def resource(self):
        return Resource.get_empty()


class Push(PushService):
    def __init__(self):
        super().__init__(None, None)
        self.pushed = []

    def push_snapshot(self, snapshot):
        self.pushed.append(snapshot)


def target():
    value = 1
    value += 1  # TRACEPOINT
    return value


def line_of(func, marker):
    lines, start = inspect.getsourcelines(func)
    for idx, text in enumerate(lines):
        if marker in text:
            return start + idx
    raise AssertionError(marker)


def main():
    config = Config()
    tasks = TaskHandler()
    config.set_task_handler(tasks)
    push = Push()
    handler = TriggerHandler(config, push)
    file = os.path.basename(__file__)
    line = line_of(target, "TRACEPOINT")

    def hit():
        def run():
            sys.settrace(handler.trace_call)
            try:
                target()
            finally:
                sys.settrace(None)

        thread = threading.Thread(target=run, daemon=True)
        thread.start()
        thread.join(10)

    def wait_for_config(count):
        import time
        for _ in range(500):
            if len(handler._tp_config) == count:
                return
            time.sleep(0.01)
        raise AssertionError("config not delivered")

    once = TracePointConfig(ID="tp-once", path=file, line_number=line, args={'fire_count': '1', 'fire_period': '0'})
    # first poll: one tracepoint, fire_count 1
    config.tracepoints.update_new_config(1, "hash-1", convert_response([once]))
    wait_for_config(1)
    hit()
    hit()
    after_first = len(push.pushed)
    # second poll: the same tracepoint, and an unrelated one somewhere else
    other = TracePointConfig(ID="tp-other", path="other_file.py", line_number=10, args={})
    config.tracepoints.update_new_config(2, "hash-2", convert_response([once, other]))
    wait_for_config(2)
    hit()
    after_second = len(push.pushed)
    tasks.flush()

    print("snapshots of tp-once: %d after two hits, %d after the config update and one more hit" %
          (after_first, after_second))
    if after_first != 1:
        print("unexpected: fire_count 1 tracepoint did not collect exactly once before the update")
        return 2
    if after_second > 1:
        print("DEFECT: tp-once has fire_count 1 and was never removed, but collected %d times: the poll update for an "
              "unrelated tracepoint replaced its LocationAction (and execution stats)" % after_second)
        return 1
    print("ok")
    return 0


if __name__ == '__main__':
    sys.exit(main())
