"""
obs2 (unmodified tree): the time window of a tracepoint is never enforced for tracepoints that are installed the
normal way (poll response or Deep.register_tracepoint -> build_trigger).

build_snapshot_action / build_log_action / build_metric_action / build_span_action copy fire_count and fire_period
into the config of the action, but not window_start / window_end. LocationAction builds its TracepointWindow from
its own config, so the window is always (0, 0) = unlimited. Only an action that is constructed in code with the window
in its config has one.

exit 1 + explanation when the defect is present.
"""
import inspect
import os
import sys
import threading

from deep.api.plugin import TracepointLogger
from deep.api.resource import Resource
from deep.api.tracepoint.constants import LOG_MSG, FIRE_COUNT, FIRE_PERIOD, WINDOW_START, WINDOW_END, SNAPSHOT, \
    NO_COLLECT
from deep.api.tracepoint.trigger import build_trigger
from deep.config import ConfigService
from deep.processor.trigger_handler import TriggerHandler
from deep.push.push_service import PushService


class Logger(TracepointLogger):
    def __init__(self):
        self.logged = []

    def log_tracepoint(self, log_msg: str, tp_id: str, ctx_id: str):
        self.logged.append((tp_id, log_msg))


class Config(ConfigService):
    def __init__(self):
        super().__init__({})
        self.logger = Logger()

    @property
    def tracepoint_logger(self):
        return self.logger

    @property
    def resource(self):
        return Resource.get_empty()


class Push(PushService):
    def __init__(self):
        super().__init__(None, None)
        self.pushed = []

    def push_snapshot(self, snapshot):
        self.pushed.append(snapshot)


def target():
    value = 1
    value += 1  # TRACEPOINT
    return value


def line_of(func, marker):
    lines, start = inspect.getsourcelines(func)
    for idx, text in enumerate(lines):
        if marker in text:
            return start + idx
    raise AssertionError(marker)


def main():
    config = Config()
    push = Push()
    handler = TriggerHandler(config, push)
    file = os.path.basename(__file__)
    line = line_of(target, "TRACEPOINT")
    # a window that ended long ago (1 .. 1000, whatever the unit is: the hit is in 2026), as int and as text
    failed = False
    for window in ({WINDOW_START: 1, WINDOW_END: 1000}, {WINDOW_START: '1', WINDOW_END: '1000'}):
        config.logger.logged.clear()
        push.pushed.clear()
        snapshot_tp = build_trigger("tp-snapshot", file, line, dict(window, **{FIRE_COUNT: '1', FIRE_PERIOD: '0'}),
                                    [], [])
        log_tp = build_trigger("tp-log", file, line,
                               dict(window, **{FIRE_COUNT: '1', FIRE_PERIOD: '0', LOG_MSG: "log", SNAPSHOT: NO_COLLECT}),
                               [], [])
        handler.new_config([snapshot_tp, log_tp])

        def run():
            sys.settrace(handler.trace_call)
            try:
                target()
            finally:
                sys.settrace(None)

        thread = threading.Thread(target=run, daemon=True)
        thread.start()
        thread.join(10)
        print("window %s: snapshots pushed: %d, logs: %s" % (window, len(push.pushed), config.logger.logged))
        if len(push.pushed) > 0 or len(config.logger.logged) > 0:
            failed = True
    if failed:
        print("DEFECT: the tracepoints have a time window that ended long ago, but collected: window_start / "
              "window_end of the tracepoint args never reach the LocationAction (build_*_action drop them)")
        return 1
    print("ok")
    return 0


if __name__ == '__main__':
    sys.exit(main())
