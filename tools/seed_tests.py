#!/usr/bin/env python3
"""tools/seed_tests.py [REGEX] [--only-false] : (re)run the repository's pinned suite with each seeded patch applied (private
worktree, private network namespace) and record the outcome in <case>/meta.json (existing_suite_still_passes)."""
import glob, json, os, re, subprocess, sys
V = os.path.dirname(os.path.dirname(os.path.abspath(__file__)))
pat = next((a for a in sys.argv[1:] if not a.startswith('--')), '')
only_false = '--only-false' in sys.argv
WT = '/tmp/vf_tests_%d' % os.getpid()
sh = lambda c: subprocess.run(c, shell=True, capture_output=True, text=True)
sh('git -C /repo worktree add -f --detach %s HEAD' % WT)
try:
    for d in sorted(glob.glob(os.path.join(V, 'seeded', 'C*-r*-*'))):
        case = os.path.basename(d)
        mp = os.path.join(d, 'meta.json')
        if pat and not re.search(pat, case):
            continue
        m = json.load(open(mp)) if os.path.exists(mp) else {'case': case, 'property': case.split('-')[0]}
        if only_false and m.get('existing_suite_still_passes') is not False:
            continue
        sh('git -C %s checkout -- .; git -C %s clean -fdq' % (WT, WT))
        if sh('git -C %s apply %s/patch.diff' % (WT, d)).returncode != 0:
            print(case, 'NOAPPLY', flush=True)
            continue
        t = sh('cd %s && timeout 2700 python3 tools/baseline.py %s' % (V, WT))
        m['existing_suite_still_passes'] = t.returncode == 0
        m['existing_suite_checked_on_head'] = sh('git -C /repo rev-parse --short HEAD').stdout.strip()
        m['existing_suite_note'] = (t.stdout.strip().splitlines() or [''])[0][:200]
        json.dump(m, open(mp, 'w'), indent=1)
        print(case, m['existing_suite_still_passes'], m['existing_suite_note'], flush=True)
finally:
    sh('git -C /repo worktree remove --force %s' % WT)
