#!/usr/bin/env python3
import json, sys, glob
for f in sorted(glob.glob('/verif/replays/%s/*.json' % sys.argv[1])):
    d = json.load(open(f))
    print('==', d['mechanism'], 'x%d' % d['occurrences'], f)
    print('   what:', str(d['what'])[:700])
    print('   witness:', json.dumps(d['witness'])[:int(sys.argv[2]) if len(sys.argv) > 2 else 900])
