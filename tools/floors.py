#!/usr/bin/env python3
"""tools/floors.py TIER SEED... : run every check for the given seeds and report, per REQUIRE floor, the smallest
observed counter / floor ratio (a ratio near 1 means some seed will be inconclusive sooner or later)."""
import ast, json, os, re, subprocess, sys
V = os.path.dirname(os.path.dirname(os.path.abspath(__file__)))
tier, seeds = sys.argv[1], sys.argv[2:]
worst = {}
for i in range(1, 21):
    pid = 'C%02d' % i
    src = open(os.path.join(V, 'vf', 'props', 'c%02d.py' % i)).read()
    req = {}
    for node in ast.parse(src).body:
        if isinstance(node, ast.Assign) and getattr(node.targets[0], 'id', '') == 'REQUIRE':
            req = ast.literal_eval(node.value)
    for s in seeds:
        p = subprocess.run('./check %s %s' % (pid, tier), shell=True, cwd=V, capture_output=True, text=True,
                           env=dict(os.environ, VERIF_SEED=s))
        m = re.search(r'counters: (\{.*\})', p.stdout)
        c = json.loads(m.group(1)) if m else {}
        m2 = re.search(r'distinct: (\{.*\})', p.stdout)
        c.update(json.loads(m2.group(1)) if m2 else {})
        print('seed=%s %s rc=%d %s' % (s, pid, p.returncode, p.stdout.splitlines()[0] if p.stdout else ''), flush=True)
        for l in p.stdout.splitlines():
            if l.startswith(('VIOLATION', 'INCONCLUSIVE')):
                print('   ', l[:300], flush=True)
        for k, floor in req.items():
            ratio = c.get(k, 0) / float(floor)
            if (pid, k) not in worst or ratio < worst[(pid, k)][0]:
                worst[(pid, k)] = (ratio, s, c.get(k, 0), floor)
print('--- floors, smallest ratio first')
for (pid, k), (ratio, s, v, floor) in sorted(worst.items(), key=lambda kv: kv[1][0])[:40]:
    print('%s %-45s min %6d / floor %6d = %.2f (seed %s)' % (pid, k, v, floor, ratio, s))
