#!/bin/sh
# copy finished meta.json files of running/finished vp matrix runs into /verif/seeded (only full '--all' evaluations)
for r in "$@"; do
  for m in /root/.vp/runs/$r/verif/seeded/*/meta.json; do
    [ -f "$m" ] || continue
    c=$(basename $(dirname $m))
    if python3 - "$m" <<'PY'
import json,sys
m=json.load(open(sys.argv[1]))
sys.exit(0 if '--all' in m.get('ran','') and len(m.get('checks',{}))==20 and m.get('repo_head')=='36eba85' else 1)
PY
    then cp $m /verif/seeded/$c/meta.json; fi
  done
done
ls /verif/seeded/*/meta.json | wc -l
