#!/usr/bin/env python3
"""Run the repository's pinned suite (guard off) and compare with BASELINE.json stable_pass."""
import json, os, subprocess, sys, tempfile, xml.etree.ElementTree as ET
repo = sys.argv[1] if len(sys.argv) > 1 else '/repo'
base = json.load(open('/root/.vp/BASELINE.json'))
fd, path = tempfile.mkstemp(suffix='.xml'); os.close(fd)
env = {k: v for k, v in os.environ.items() if not k.startswith('DEEP_')}
env['PYTHONPATH'] = os.path.join(repo, 'src') + os.pathsep + os.path.join(repo, 'tests')
cmd = ['/venv/bin/python', '-m', 'pytest', '-ra', '-q', '-p', 'no:cacheprovider', '--timeout=900',
       '--continue-on-collection-errors', '--junitxml=' + path] + sys.argv[2:]
# the integration tests bind a fixed TCP port: give the run a network namespace of its own when the kernel lets us, so
# that several runs (e.g. the seeded-change matrix streams) do not collide
if subprocess.run(['unshare', '-rn', 'true'], capture_output=True).returncode == 0:
    cmd = ['unshare', '-rn', 'sh', '-c', 'ip link set lo up; exec "$@"', 'sh'] + cmd
try:
    p = subprocess.run(cmd, cwd=repo, env=env, capture_output=True, text=True, timeout=2400)
except subprocess.TimeoutExpired:
    print('the suite did not finish within 2400 s')
    os.unlink(path)
    sys.exit(1)
passed = set()
for tc in ET.parse(path).getroot().iter('testcase'):
    if not any(ch.tag in ('failure', 'error', 'skipped') for ch in tc):
        passed.add('%s::%s' % (tc.get('classname'), tc.get('name')))
os.unlink(path)
want = set(base['stable_pass'])
missing = sorted(want - passed)
print('passed %d, baseline %d, baseline tests not passing: %d' % (len(passed), len(want), len(missing)))
for m in missing[:30]:
    print('  MISSING', m)
if missing:
    print(p.stdout[-3000:])
sys.exit(1 if missing else 0)
