#!/usr/bin/env python3
"""tools/seed_eval.py <PROP> <N> [--tests] [--all] : evaluate seeded patch /tmp/seed_<PROP>_out/patch<N>.diff

Steps (in the scratch worktree /tmp/vf_wt at /repo's HEAD): demo on clean tree (must PASS), apply patch,
demo (must FAIL), optional baseline suite (must pass), run the property's check (quick) with VERIF_REPO -> detected?,
revert. With --all also runs every other check to see collateral detection. Prints a JSON summary line.
"""
import json, os, subprocess, sys
prop, n = sys.argv[1], sys.argv[2]
flags = sys.argv[3:]
src = ('/tmp/seed2_%s_out' if '--round2' in flags else '/tmp/seed_%s_out') % prop
if '--from-seeded' in flags:
    src = '/verif/seeded/%s-%s' % (prop, n)
patch = os.path.join(src, 'patch%s.diff' % n if os.path.exists(os.path.join(src, 'patch%s.diff' % n)) else 'patch.diff')
demo = os.path.join(src, 'demo%s.py' % n if os.path.exists(os.path.join(src, 'demo%s.py' % n)) else 'demo.py')
WT = os.environ.get('VF_WT', '/tmp/vf_wt')
def sh(cmd, **kw):
    return subprocess.run(cmd, shell=True, capture_output=True, text=True, **kw)
if not os.path.isdir(WT):
    sh('git -C /repo worktree add -f --detach %s HEAD' % WT)
head = sh('git -C /repo rev-parse HEAD').stdout.strip()
sh('git -C %s checkout -q --detach %s; git -C %s checkout -- .; git -C %s clean -fdq' % (WT, head, WT, WT))
env = dict(os.environ, PYTHONPATH='%s/src:%s/tests' % (WT, WT))
def run_demo():
    txt = open(demo).read().replace('/tmp/seed2_%s' % prop, WT).replace('/tmp/seed_%s' % prop, WT) if os.path.exists(demo) else ''
    tmp = '/tmp/vf_demo_%s_%s.py' % (prop, n)
    open(tmp, 'w').write(txt)
    p = sh('cd %s && timeout 300 /venv/bin/python %s' % (WT, tmp), env=env)
    return p.returncode, (p.stdout + p.stderr)[-300:]
out = {'prop': prop, 'n': n}
rc, txt = run_demo(); out['demo_clean_rc'] = rc
ptxt = open(patch).read().replace('a/tmp/seed2_%s/' % prop, 'a/').replace('b/tmp/seed2_%s/' % prop, 'b/').replace('a/tmp/seed_%s/' % prop, 'a/').replace('b/tmp/seed_%s/' % prop, 'b/')
open('/tmp/vf_patch.diff', 'w').write(ptxt)
p = sh('git -C %s apply /tmp/vf_patch.diff' % WT)
if p.returncode != 0:
    # the tree moved on since the patch was written: try with fuzz
    p = sh('cd %s && patch -p1 -F3 --no-backup-if-mismatch < /tmp/vf_patch.diff' % WT)
    out['applied_with_fuzz'] = p.returncode == 0
out['applies'] = p.returncode == 0
if p.returncode != 0:
    out['apply_err'] = p.stderr[-300:]
    print(json.dumps(out)); sys.exit(0)
rc, txt = run_demo(); out['demo_patched_rc'] = rc; out['demo_patched_tail'] = txt[-200:]
if '--tests' in flags:
    p = sh('cd /verif && python3 tools/baseline.py %s' % WT)
    out['baseline_ok'] = p.returncode == 0
    out['baseline_tail'] = p.stdout[-200:]
props = [prop]
if '--all' in flags:
    props = ['C%02d' % i for i in range(1, 21)]
tier = 'thorough' if '--thorough' in flags else 'quick'
det = {}
for pr in props:
    p = sh('cd /verif && VERIF_REPO=%s ./check %s %s' % (WT, pr, tier))
    mechs = sorted({l.split('mechanism=')[1].split(' ')[0] for l in p.stdout.splitlines() if 'mechanism=' in l})
    det[pr] = {'rc': p.returncode, 'mechanisms': mechs}
    if p.returncode == 2:
        det[pr]['inconclusive'] = [l[:200] for l in p.stdout.splitlines() if l.startswith('INCONCLUSIVE')][:2]
out['detect'] = det
sh('git -C %s checkout -- .; git -C %s clean -fdq' % (WT, WT))
print(json.dumps(out))
