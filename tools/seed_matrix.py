#!/usr/bin/env python3
"""tools/seed_matrix.py [--tests] [--all | --prior] [--only PATTERN] : evaluate every /verif/seeded/<case>/ against the checks.

For each case, in a private scratch worktree of /repo's HEAD: demo on the clean tree (must pass), apply patch.diff
(git apply, else patch -F3), demo (must fail), optionally the repository's own suite (must still pass), then the
property's own check (quick) and, with --all, every other check. Writes <case>/meta.json and prints one line per case.
The worktree is removed at the end.
"""
import json, os, re, subprocess, sys, glob, time
VERIF = os.path.dirname(os.path.dirname(os.path.abspath(__file__)))
flags = sys.argv[1:]
only = flags[flags.index('--only') + 1] if '--only' in flags else ''
WT = '/tmp/vf_matrix_%d' % os.getpid()
def sh(cmd, **kw):
    return subprocess.run(cmd, shell=True, capture_output=True, text=True, **kw)
sh('git -C /repo worktree add -f --detach %s HEAD' % WT)
head = sh('git -C /repo rev-parse --short HEAD').stdout.strip()
ALL = ['C%02d' % i for i in range(1, 21)]
needs = json.load(open(os.path.join(VERIF, 'seeded', 'NEEDS.json'))) if os.path.exists(os.path.join(VERIF, 'seeded', 'NEEDS.json')) else {}
try:
    for d in sorted(glob.glob(os.path.join(VERIF, 'seeded', 'C*-r*-*'))):
        case = os.path.basename(d)
        if only and not re.search(only, case):
            continue
        prop = case.split('-')[0]
        sh('git -C %s checkout -q --detach %s; git -C %s checkout -- .; git -C %s clean -fdq' % (WT, head, WT, WT))
        env = dict(os.environ, PYTHONPATH='%s/src:%s/tests' % (WT, WT))
        demo = '/tmp/vf_matrix_demo_%d.py' % os.getpid()
        open(demo, 'w').write(open(os.path.join(d, 'demo.py')).read().replace('@OUT@', d).replace('@WT@', WT))
        def run_demo():
            p = sh('cd %s && timeout 300 /venv/bin/python %s' % (WT, demo), env=env)
            return p.returncode, (p.stdout + p.stderr)[-300:]
        meta = {'case': case, 'property': prop, 'repo_head': head, 'origin': 'independent sub-agent given only the '
                'property text and a scratch worktree (round %s)' % case.split('-')[1][1:],
                'needs_to_manifest': needs.get(case, 'see agent_notes.md')}
        rc0, _ = run_demo() if '--checks' not in flags else (0, '')
        p = sh('git -C %s apply %s/patch.diff' % (WT, d))
        fuzz = False
        if p.returncode != 0:
            p = sh('cd %s && patch -p1 -F3 --no-backup-if-mismatch < %s/patch.diff' % (WT, d))
            fuzz = True
        meta['applies_to_head'] = p.returncode == 0
        meta['applied_with_fuzz'] = fuzz and p.returncode == 0
        if p.returncode == 0:
            rc1, tail = run_demo()
            meta['demo_passes_on_clean_tree'] = rc0 == 0
            meta['demo_fails_with_patch'] = rc1 != 0
            meta['demo_tail_with_patch'] = tail[-200:]
            if '--tests' in flags:
                t = sh('cd %s && python3 tools/baseline.py %s' % (VERIF, WT))
                meta['existing_suite_still_passes'] = t.returncode == 0
            det = {}
            run = ALL if '--all' in flags else [prop]
            if '--checks' in flags:
                # a second, targeted pass: the named sibling checks only (results are merged into the existing meta.json)
                run = flags[flags.index('--checks') + 1].split(',')
            if '--prior' in flags:
                # re-evaluation on a newer head: the property's own check plus the checks that reported this change in
                # the last full evaluation (all 20 again when none did)
                try:
                    prev = json.load(open(os.path.join(d, 'meta.json')))
                except Exception:
                    prev = {}
                if len(prev.get('checks', {})) == 20 and prev.get('detected_by'):
                    run = sorted(set(prev['detected_by']) | {prop})
                    meta['earlier_full_evaluation'] = {'repo_head': prev.get('repo_head'),
                                                       'detected_by': prev.get('detected_by')}
                else:
                    run = ALL
            for pr in run:
                c = sh('cd %s && VERIF_REPO=%s ./check %s quick' % (VERIF, WT, pr))
                mechs = sorted({l.split('mechanism=')[1].split(' ')[0] for l in c.stdout.splitlines() if 'mechanism=' in l})
                det[pr] = {'rc': c.returncode, 'mechanisms': mechs}
            meta['checks'] = det
            meta['detected_by'] = sorted(k for k, v in det.items() if v['rc'] == 1)
            meta['detected_by_own_check'] = det.get(prop, {}).get('rc') == 1
        meta['ran'] = 'tools/seed_matrix.py ' + ' '.join(flags)
        old = {}
        mp = os.path.join(d, 'meta.json')
        if os.path.exists(mp):
            try:
                old = json.load(open(mp))
            except Exception:
                old = {}
        for k in ('existing_suite_still_passes',):
            if k not in meta and k in old:
                meta[k] = old[k]
        if '--all' not in flags and '--prior' not in flags and old.get('checks'):
            merged = dict(old['checks']); merged.update(meta.get('checks', {}))
            meta['checks'] = merged
            meta['detected_by'] = sorted(k for k, v in merged.items() if v['rc'] == 1)
        json.dump(meta, open(mp, 'w'), indent=1)
        print(case, 'applies' if meta['applies_to_head'] else 'NOAPPLY', 'demo', rc0, '->', meta.get('demo_fails_with_patch'),
              'tests', meta.get('existing_suite_still_passes'), 'detected_by', meta.get('detected_by'), flush=True)
finally:
    sh('git -C /repo worktree remove --force %s' % WT)
