#!/usr/bin/env python3
"""tools/seed_prompts.py ROUND : write /tmp/prompt<ROUND>_Cxx.txt for a new round of independent seeded changes.

The authors get the property text, a scratch worktree and the list of ideas already used (from /verif/seeded/*/patch.diff,
i.e. other authors' patches - nothing of the checking machinery)."""
import glob, json, os, sys
rnd = sys.argv[1]
tmpl = open('/tmp/prompt2_C01.txt').read() if False else None
props = [json.loads(l) for l in open('/verif/properties.jsonl')]
for p in props:
    pid = p['id']
    wt, outd = '/tmp/seed%s_%s' % (rnd, pid), '/tmp/seed%s_%s_out' % (rnd, pid)
    used = []
    for d in sorted(glob.glob('/verif/seeded/%s-r*-*' % pid)):
        src = os.path.join(d, 'patch.orig.diff') if os.path.exists(os.path.join(d, 'patch.orig.diff')) else os.path.join(d, 'patch.diff')
        files, lines = [], []
        for l in open(src).read().splitlines():
            if l.startswith('+++ b/'):
                files.append(l[6:])
            elif (l.startswith('+') or l.startswith('-')) and not l.startswith(('+++', '---')) and l[1:].strip() and not l[1:].strip().startswith('#'):
                lines.append(l[0] + ' ' + l[1:].strip()[:70])
        used.append('  - %s: %s' % (', '.join(files), ' | '.join(lines[:4])))
    text = """You are helping to evaluate a verification harness by producing realistic regressions ("seeded bugs") in an open-source Python project. Work ONLY inside the scratch git worktree {wt} (a checkout of the project intergral/deep-python-client, a Python dynamic-instrumentation agent: sys.settrace tracepoints, snapshots of variables, gRPC push). Write your deliverables to {outd}/. Do NOT read or touch /verif, /repo, /tmp/seed_* or any other directory; do not use git to commit; leave the worktree files restored to their original content when you are done (git -C {wt} checkout -- .).

The semantic property of the project that your changes must break:

ID: {pid}
TITLE: {title}
STATEMENT: {statement}
QUANTIFIED OVER: {quant}
RELEVANT FILES (under src/deep): {files}

TASK: produce THREE different, independent source changes (patch1, patch2, patch3) to files under {wt}/src/deep, each of which
 (1) still imports/compiles,
 (2) keeps the project's existing test suite passing exactly as before. IMPORTANT: the integration tests bind the fixed TCP port 43315 and other jobs on this machine run the same suite concurrently, so ALWAYS run the suite in a private network namespace: `cd {wt} && unshare -rn sh -c 'ip link set lo up; /venv/bin/python -m pytest -q -p no:cacheprovider --timeout=900 tests'` (on the unmodified tree: 169 passed and 9 errors/failures in tests/unit_tests/api/plugin/metrics/test_otel_metrics.py which do not matter; about 70 s, longer when the machine is busy),
 (3) breaks the property above in a way that ordinary use would NOT expose at once: it must need something specific to manifest - a particular interleaving of threads, a fault/exception at a particular point, a multi-step sequence of operations, an unusual input or value type, a boundary value, or two cooperating code sites that each look fine alone. Make them look like plausible mistakes of a refactoring or "optimisation" (off-by-one, dropped guard, wrong variable, reordered statements, narrowed except clause, removed/moved lock, cache keyed wrongly, early return, stale copy, changed default, wrong comparison operator, lost copy/aliasing, ...), not like sabotage. The three patches must differ from each other in mechanism and location. Prefer code that the property depends on but that is NOT in the list of relevant files above when you can find such code (helpers, converters, configuration, utilities), and prefer mechanisms that are subtle (wrong only for some inputs or schedules). They must ALSO differ from these ideas that were already used by other people for this property (do not repeat them, and do not merely move the same idea to a neighbouring line):
{used}

For each patch write a demonstration: a small standalone Python program (demoN.py, run as `cd {wt} && PYTHONPATH={wt}/src:{wt}/tests /venv/bin/python {outd}/demoN.py`) that exits 0 and prints PASS on the unmodified tree and exits 1 and prints FAIL (with a short explanation of the observed wrong behaviour) when patch N is applied. The demo should exercise the real code (e.g. TriggerHandler(config, push).trace_call installed via sys.settrace, ConfigService, TaskHandler, BoundedAttributes, Deep, ... whatever fits) - look at tests/unit_tests and tests/it_tests for how the pieces are constructed. No network is available (127.0.0.1 loopback works; if your demo needs a gRPC server use an ephemeral port, not 43315). If a demo needs temporary files, create them with tempfile and delete them at the end.

ALSO (separately from the three patches): if, while exploring, you notice behaviour of the UNMODIFIED tree that already violates the property as stated (a genuine defect, not one of your patches), describe it in notes.md under a heading '## Observations about the unmodified tree' and add a minimal reproduction script obsK.py (exit 1 and print what is wrong on the unmodified tree). Only report what you actually reproduced. Typical places nobody has looked at closely yet: the plugins shipped with the project (src/deep/api/plugin: python, otel, prometheus metrics, otel metrics), process-global side effects of agent code that runs during trace events (module state, logging, threading, warnings, gc, sys), conversions in src/deep/push and src/deep/grpc, src/deep/utils.py, src/deep/api/resource, src/deep/config.

DELIVERABLES in {outd}/: patch1.diff, patch2.diff, patch3.diff (output of `git -C {wt} diff` with only that patch applied; each must apply cleanly with `git apply` to the unmodified tree), demo1.py, demo2.py, demo3.py, and notes.md saying for each patch (under a heading '## patchN'): what it changes, why the existing tests do not notice, what exactly is needed for it to manifest ('Needed to manifest: ...'), and the commands you ran with their results. Verify everything yourself before finishing: apply patch N -> tests still pass -> demoN fails; revert -> demoN passes. Python is /venv/bin/python (3.12). Keep each patch small (a few lines).
""".format(wt=wt, outd=outd, pid=pid, title=p['title'], statement=p['statement'], quant=p['quantifier']['text'],
           files=', '.join(p['anchors']['files']), used='\n'.join(used))
    open('/tmp/prompt%s_%s.txt' % (rnd, pid), 'w').write(text)
    print(pid, len(used), 'used ideas', len(text), 'chars')
