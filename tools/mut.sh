#!/bin/sh
# tools/mut.sh "<python expr to patch>" PROP [PROP...] : apply a one-off mutation in a scratch worktree and run checks
# usage: tools/mut.sh file 'old' 'new' C03 C02
WT=/tmp/vf_wt
if [ ! -d $WT ]; then git -C /repo worktree add -f --detach $WT HEAD >/dev/null 2>&1; fi
git -C $WT checkout -q --detach $(git -C /repo rev-parse HEAD) && git -C $WT checkout -- . 
f="$1"; old="$2"; new="$3"; shift 3
/venv/bin/python - "$WT/$f" "$old" "$new" <<'PY'
import sys
p, old, new = sys.argv[1:4]
s = open(p).read()
if old not in s:
    print('PATTERN NOT FOUND'); sys.exit(3)
open(p, 'w').write(s.replace(old, new, 1))
PY
[ $? -eq 0 ] || exit 3
for p in "$@"; do
  VERIF_REPO=$WT ./check $p quick > /tmp/vf_mut_$p.log 2>&1; rc=$?
  echo "$p rc=$rc: $(grep -c '^VIOLATION' /tmp/vf_mut_$p.log) violation line(s); $(grep -m2 'mechanism=' /tmp/vf_mut_$p.log | cut -c1-220 | tr '\n' ' ')"
done
git -C $WT checkout -- .
