#!/usr/bin/env python3
"""tools/sync_meta.py RUN... : copy finished full ('--all', 20 checks, current /repo head) meta.json files of vp matrix runs into
/verif/seeded."""
import glob, json, os, shutil, subprocess, sys
head = subprocess.run('git -C /repo rev-parse --short HEAD', shell=True, capture_output=True, text=True).stdout.strip()
n = 0
for r in sys.argv[1:]:
    for m in glob.glob('/root/.vp/runs/%s/verif/seeded/*/meta.json' % r):
        try:
            d = json.load(open(m))
        except Exception:
            continue
        full = '--all' in d.get('ran', '') and (len(d.get('checks', {})) == 20 or not d.get('applies_to_head'))
        if d.get('repo_head') == head and (full or '--prior' in d.get('ran', '')):
            dst = '/verif/seeded/%s/meta.json' % d['case']
            old = json.load(open(dst)) if os.path.exists(dst) else {}
            for k in ('existing_suite_still_passes', 'existing_suite_note', 'existing_suite_checked_on_head'):
                if k not in d and k in old:
                    d[k] = old[k]
            json.dump(d, open(dst, 'w'), indent=1)
            n += 1
print('synced', n, 'head', head)
