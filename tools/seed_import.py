#!/usr/bin/env python3
"""Copy the sub-agents' deliverables into /verif/seeded/<PROP>-<round>-<n>/ (patch.diff, demo.py, agent_notes.md)."""
import os, re, shutil
for rnd, pat in ((1, '/tmp/seed_%s_out'), (2, '/tmp/seed2_%s_out')):
    for i in range(1, 21):
        prop = 'C%02d' % i
        src = pat % prop
        if not os.path.isdir(src):
            continue
        for n in (1, 2, 3):
            pf = os.path.join(src, 'patch%d.diff' % n)
            df = os.path.join(src, 'demo%d.py' % n)
            if not (os.path.exists(pf) and os.path.exists(df)):
                continue
            dst = '/verif/seeded/%s-r%d-%d' % (prop, rnd, n)
            os.makedirs(dst, exist_ok=True)
            wt = '/tmp/seed%s_%s' % ('2' if rnd == 2 else '', prop)
            txt = open(pf).read().replace('a' + wt + '/', 'a/').replace('b' + wt + '/', 'b/')
            open(os.path.join(dst, 'patch.diff'), 'w').write(txt)
            demo = open(df).read().replace(wt + '_out', '@OUT@').replace(wt, '@WT@')
            open(os.path.join(dst, 'demo.py'), 'w').write(demo)
            notes = os.path.join(src, 'notes.md')
            if os.path.exists(notes):
                shutil.copy(notes, os.path.join(dst, 'agent_notes.md'))
print(len(os.listdir('/verif/seeded')))
