#!/usr/bin/env python3
"""tools/seed_import.py ROUND [PROP...] : copy the independent authors' deliverables of one round from
/tmp/seed<ROUND>_<PROP>_out into /verif/seeded/<PROP>-r<ROUND>-<n>/ (patch.diff, demo.py, agent_notes.md).
Existing directories are left alone."""
import os, shutil, sys
rnd = sys.argv[1]
props = sys.argv[2:] or ['C%02d' % i for i in range(1, 21)]
for prop in props:
    wt = '/tmp/seed%s_%s' % (rnd, prop)
    src = wt + '_out'
    if not os.path.isdir(src):
        continue
    for n in (1, 2, 3):
        pf, df = os.path.join(src, 'patch%d.diff' % n), os.path.join(src, 'demo%d.py' % n)
        dst = '/verif/seeded/%s-r%s-%d' % (prop, rnd, n)
        if not (os.path.exists(pf) and os.path.exists(df)) or os.path.exists(dst):
            continue
        os.makedirs(dst)
        txt = open(pf).read().replace('a' + wt + '/', 'a/').replace('b' + wt + '/', 'b/')
        open(os.path.join(dst, 'patch.diff'), 'w').write(txt)
        demo = open(df).read().replace(src, '@OUT@').replace(wt, '@WT@')
        open(os.path.join(dst, 'demo.py'), 'w').write(demo)
        if os.path.exists(os.path.join(src, 'notes.md')):
            shutil.copy(os.path.join(src, 'notes.md'), os.path.join(dst, 'agent_notes.md'))
        print('imported', dst)
