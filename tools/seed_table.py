#!/usr/bin/env python3
"""Print the markdown table of seeded changes (from /verif/seeded/*/meta.json) for DESIGN.md section 9."""
import glob, json, os, re
rows = []
for d in sorted(glob.glob('/verif/seeded/C*-r*-*')):
    mp = os.path.join(d, 'meta.json')
    if not os.path.exists(mp):
        continue
    m = json.load(open(mp))
    patch = open(os.path.join(d, 'patch.diff')).read()
    files = sorted({l[6:].replace('src/deep/', '') for l in patch.splitlines() if l.startswith('+++ b/')})
    det = m.get('detected_by') or []
    own = m.get('detected_by_own_check')
    mech = ''
    for k in ([m['property']] if own else det[:1]):
        mech = ', '.join(m.get('checks', {}).get(k, {}).get('mechanisms', [])[:2])
    status = 'own check' if own else ('by ' + ','.join(det) if det else ('demo no longer fails on HEAD' if m.get('demo_fails_with_patch') is False else 'NOT detected'))
    rows.append('| %s | %s | %s | %s |' % (m['case'], ', '.join(files), status, mech))
print('| case | files changed | detected | mechanism keys reported |')
print('|---|---|---|---|')
print('\n'.join(rows))
