#!/bin/sh
# tools/sweep.sh <tier> <seed...> : run every check for the given seeds, print one line per run
tier="$1"; shift
for seed in "$@"; do
  for p in C01 C02 C03 C04 C05 C06 C07 C08 C09 C10 C11 C12 C13 C14 C15 C16 C17 C18 C19 C20; do
    VERIF_SEED=$seed ./check $p $tier > /tmp/sweep_$$.log 2>&1; rc=$?
    echo "seed=$seed $p rc=$rc $(head -1 /tmp/sweep_$$.log)"
    [ $rc -ne 0 ] && grep -E "VIOLATION|INCONCLUSIVE|mechanism=" /tmp/sweep_$$.log | cut -c1-400
  done
done
rm -f /tmp/sweep_$$.log
