#!/bin/sh
# tools/refac_eval.sh <dir-with-patchN.diff> : apply each benign refactoring in a private worktree, run all quick checks
src="$1"; WT=/tmp/vf_refac_$$
git -C /repo worktree add -f --detach $WT HEAD >/dev/null 2>&1
for pf in $src/patch*.diff; do
  git -C $WT checkout -- . ; git -C $WT clean -fdq
  sed "s#[ab]/tmp/refac_[0-9]*/#&#; s#a/tmp/refac_[0-9][0-9]/#a/#; s#b/tmp/refac_[0-9][0-9]/#b/#" $pf > /tmp/vf_refac_$$.diff
  if ! git -C $WT apply /tmp/vf_refac_$$.diff 2>/dev/null; then echo "$pf NOAPPLY"; continue; fi
  res=""
  for p in C01 C02 C03 C04 C05 C06 C07 C08 C09 C10 C11 C12 C13 C14 C15 C16 C17 C18 C19 C20; do
    out=$(cd /verif && VERIF_REPO=$WT ./check $p quick 2>&1); rc=$?
    if [ $rc -ne 0 ]; then res="$res $p(rc=$rc:$(echo "$out" | grep -o 'mechanism=[^ ]*\|INCONCLUSIVE.*' | head -2 | cut -c1-120 | tr '\n' ' '))"; fi
  done
  echo "$pf ->${res:- all 20 checks silent}"
done
git -C /repo worktree remove --force $WT; rm -f /tmp/vf_refac_$$.diff
