#!/bin/sh
# tools/try.sh <case> <check>... : apply one seeded patch in the scratch worktree and run the given quick checks
WT=/tmp/vf_wt
[ -d $WT ] || git -C /repo worktree add -f --detach $WT HEAD >/dev/null 2>&1
c=$1; shift
git -C $WT checkout -q --detach $(git -C /repo rev-parse HEAD); git -C $WT checkout -- . ; git -C $WT clean -fdq
git -C $WT apply /verif/seeded/$c/patch.diff || { echo "$c NOAPPLY"; exit 3; }
for p in "$@"; do
  out=$(cd /verif && VERIF_REPO=$WT ./check $p ${TIER:-quick} 2>&1)
  echo "$c $p: $(echo "$out" | head -1 | grep -o 'verdict=[a-z]*') $(echo "$out" | grep -m2 -o 'mechanism=[^ ]*' | tr '\n' ' ')"
done
git -C $WT checkout -- .
