#!/usr/bin/env python3
"""tools/seed_keep.py <PROP> <N> '<needs>' : copy /tmp/seed_<PROP>_out/patchN+demoN into /verif/seeded/<PROP>-<N>/ with meta.json
(reads the evaluation JSON from stdin: output of seed_eval.py)"""
import json, os, shutil, sys
prop, n, needs = sys.argv[1], sys.argv[2], sys.argv[3]
ev = json.loads(sys.stdin.read())
src = '/tmp/seed_%s_out' % prop
dst = '/verif/seeded/%s-%s' % (prop, n)
os.makedirs(dst, exist_ok=True)
ptxt = open(os.path.join(src, 'patch%s.diff' % n)).read().replace('a/tmp/seed_%s/' % prop, 'a/').replace('b/tmp/seed_%s/' % prop, 'b/')
open(os.path.join(dst, 'patch.diff'), 'w').write(ptxt)
shutil.copy(os.path.join(src, 'demo%s.py' % n), os.path.join(dst, 'demo.py'))
notes = os.path.join(src, 'notes.md')
if os.path.exists(notes):
    shutil.copy(notes, os.path.join(dst, 'agent_notes.md'))
meta = {'property': prop, 'breaks': prop, 'needs_to_manifest': needs,
        'origin': 'independent sub-agent given only the property text and a scratch worktree',
        'confirmed': {'applies_to_head': ev.get('applies'), 'demo_passes_on_clean_tree': ev.get('demo_clean_rc') == 0,
                      'demo_fails_with_patch': ev.get('demo_patched_rc') not in (0, None),
                      'existing_suite_still_passes': ev.get('baseline_ok')},
        'ran': ['tools/seed_eval.py %s %s%s' % (prop, n, ' --tests' if 'baseline_ok' in ev else '')],
        'detected_by': {k: v for k, v in ev.get('detect', {}).items() if v['rc'] == 1},
        'not_detected_by_own_check': ev.get('detect', {}).get(prop, {}).get('rc') != 1}
json.dump(meta, open(os.path.join(dst, 'meta.json'), 'w'), indent=1)
print(dst, 'detected' if not meta['not_detected_by_own_check'] else 'MISSED')
