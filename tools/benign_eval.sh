#!/bin/sh
# tools/benign_eval.sh [NN...] : every behaviour-preserving refactoring under /verif/benign/<NN>/ against all quick checks
cd "$(dirname "$0")/.."
dirs="$@"; [ -z "$dirs" ] && dirs=$(ls benign)
for n in $dirs; do tools/refac_eval.sh benign/$n; done
